package lfs

import (
	"github.com/git-lfs/git-lfs/v3/config"
	"github.com/git-lfs/git-lfs/v3/filepathfilter"
)

// scripted results of the scans fsck runs
type VerifTreeItem struct {
	Pointer *WrappedPointer
	Err     error
}

var (
	VerifScanRefs   []*WrappedPointer // what ScanRef / ScanRefRange report (objects referenced)
	VerifScanByTree []VerifTreeItem   // what ScanRefByTree / ScanRefRangeByTree report (tracked files)
)

func verifScanRefsStub13(scanner *GitScanner, pointerCb GitScannerFoundPointer, include, exclude string, gitEnv, osEnv config.Environment) error {
	for _, p := range VerifScanRefs {
		q := *p
		pointerCb(&q, nil)
	}
	return nil
}

func verifScanIndexStub13(cb GitScannerFoundPointer, ref string, workingDir string, f *filepathfilter.Filter, gitEnv, osEnv config.Environment) error {
	return nil
}

func verifScanByTreeStub13(scanner *GitScanner, pointerCb GitScannerFoundPointer, include, exclude []string, gitEnv, osEnv config.Environment) error {
	for _, it := range VerifScanByTree {
		pointerCb(it.Pointer, it.Err)
	}
	return nil
}
