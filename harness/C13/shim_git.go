package git

import verif_io "io"

// VerifDiffIndexOutput is what the stubbed `git diff-index --cached HEAD -- <path>` prints.
var VerifDiffIndexOutput string

func verifDiffIndexStub(ref string, cached bool, paths []string) (string, error) {
	return VerifDiffIndexOutput, nil
}

// VerifBlobOf: scripted object database for the stubbed ObjectScanner.
var VerifBlobOf func(id string) string

var verifCurBlob string
var verifCurID string

func verifObjScanStub(s *ObjectScanner, oid string) bool {
	verifCurID = oid
	verifCurBlob = VerifBlobOf(oid)
	return true
}
func verifObjSha1Stub(s *ObjectScanner) string  { return verifCurID }
func verifObjSizeStub(s *ObjectScanner) int64   { return int64(len(verifCurBlob)) }
func verifObjErrStub(s *ObjectScanner) error    { return nil }
func verifObjCloseStub(s *ObjectScanner) error  { return nil }
func verifObjContentsStub(s *ObjectScanner) verif_io.Reader {
	return &verifStringReader{s: verifCurBlob}
}

type verifStringReader struct {
	s   string
	off int
}

func (r *verifStringReader) Read(p []byte) (int, error) {
	if r.off >= len(r.s) {
		return 0, verif_io.EOF
	}
	n := copy(p, r.s[r.off:])
	r.off += n
	return n, nil
}

func verifIsGitVersionAtLeastStub(ver string) bool { return false }

// refs for the fsck command
var VerifHeadRef *Ref

func verifCurrentRefStub() (*Ref, error) { return VerifHeadRef, nil }

func verifResolveRefsStub(names []string) ([]*Ref, error) {
	refs := make([]*Ref, len(names))
	for i, n := range names {
		refs[i] = &Ref{Name: n, Sha: "sha-of-" + n}
	}
	return refs, nil
}

func verifNewObjectScannerStub(gitEnv, osEnv Environment) (*ObjectScanner, error) { return &ObjectScanner{}, nil }
