package lfs

import (
	"strings"

	"github.com/git-lfs/git-lfs/v3/config"
	"github.com/git-lfs/git-lfs/v3/errors"
	"github.com/git-lfs/git-lfs/v3/git"
	"github.com/git-lfs/git-lfs/v3/tools"
)

var (
	verifTree13  []git.TreeBlob
	verifBlobs13 map[string]string
)

func verifLsBlobs13(ref string, predicate func(*git.TreeBlob) bool) (*TreeBlobChannelWrapper, error) {
	blobs := make(chan git.TreeBlob, len(verifTree13)+1)
	errs := make(chan error, 1)
	for k := range verifTree13 {
		t := verifTree13[k]
		if predicate(&t) {
			blobs <- t
		}
	}
	close(blobs)
	close(errs)
	return &TreeBlobChannelWrapper{tools.NewBaseChannelWrapper(errs), blobs}, nil
}

func verifNewPointerScanner13(gitEnv, osEnv config.Environment) (*PointerScanner, error) {
	return &PointerScanner{scanner: &git.ObjectScanner{}}, nil
}

// VerifC13_TreePointers: the scan behind `git lfs fsck --pointers`: for every
// file of the tree that the tree's .gitattributes marks as LFS-tracked, a
// canonical pointer is reported as canonical, a pointer in another spelling
// as non-canonical, and content that is no pointer - short or of 1024 bytes
// and more - as "should have been a pointer"; files that are not tracked are
// not reported at all.
func VerifC13_TreePointers() {
	oid := verifNondetString("oid")
	verifAssume(len(oid) == 64)
	verifAssumeAlphabet(oid, "09af")
	canonical := "version https://git-lfs.github.com/spec/v1\noid sha256:" + oid + "\nsize 12\n"
	// the attributes file: just the LFS line, or preceded by enough comment to
	// reach or pass the 1024-byte pointer cut-off (its size must not matter)
	attrs := "*.bin filter=lfs diff=lfs merge=lfs -text\n"
	switch verifChoose("gitattributes.size", 3) {
	case 1:
		attrs = "# " + strings.Repeat("x", 1024-len(attrs)-3) + "\n" + attrs // exactly 1024 bytes
	case 2:
		attrs = "# " + strings.Repeat("licence text ", 200) + "\n" + attrs
	}
	verifBlobs13 = map[string]string{strings.Repeat("0", 40): attrs}
	verifTree13 = []git.TreeBlob{{Oid: strings.Repeat("0", 40), Size: int64(len(attrs)), Mode: 0100644, Filename: ".gitattributes"}}
	n := 1 + verifChoose("files", verifBound("files", 2, 3))
	type want struct {
		name      string
		kind      string // "canonical", "noncanonical", "notpointer", "" (not reported)
	}
	var wants []want
	for k := 0; k < n; k++ {
		tracked := verifChoose("tracked", 2) == 1
		name := []string{"a", "dir/b", "c"}[k] + map[bool]string{true: ".bin", false: ".txt"}[tracked]
		id := strings.Repeat(string(rune('a'+k)), 40)
		var blob string
		var size int64
		kind := ""
		switch verifChoose("content", 4) {
		case 0:
			blob, kind = canonical, "canonical"
		case 1: // same pointer, CRLF line ends and no final newline: valid, not canonical
			blob, kind = "version https://git-lfs.github.com/spec/v1\r\noid sha256:"+oid+"\r\nsize 12", "noncanonical"
		case 2: // raw content, short
			blob = verifNondetString("raw")
			verifAssume(len(blob) >= 1 && len(blob) <= 200)
			verifAssumeAlphabet(blob, "AZaz")
			kind = "notpointer"
		case 3: // raw content of 1024 bytes or more (only its size is looked at)
			size = verifNondetInt64("large.size")
			verifAssume(size >= 1024)
			kind = "notpointer"
		}
		if size == 0 {
			size = int64(len(blob))
		}
		verifBlobs13[id] = blob
		verifTree13 = append(verifTree13, git.TreeBlob{Oid: id, Size: size, Mode: []int32{0100644, 0100755}[verifChoose("mode", 2)], Filename: name})
		if tracked {
			wants = append(wants, want{name, kind})
		}
	}
	git.VerifBlobOf = func(id string) string { return verifBlobs13[id] }
	got := map[string]string{}
	err := runScanTreeForPointers(func(p *WrappedPointer, e error) {
		switch {
		case p != nil && p.Canonical:
			got[p.Name] += "canonical"
		case p != nil:
			got[p.Name] += "noncanonical"
		case errors.IsPointerScanError(e):
			got[e.(errors.PointerScanError).Path()] += "notpointer"
		default:
			got["?"] += "other"
		}
	}, "tree-sha", nil, nil)
	verifAssert(err == nil, "the scan runs")
	verifAssert(len(got) == len(wants), "exactly the tracked files are reported")
	for _, w := range wants {
		verifCover("tracked-file")
		verifAssert(got[w.name] == w.kind, "each tracked file is classified as canonical pointer, non-canonical pointer or not a pointer")
	}
}
