package commands

import (
	"strings"

	"github.com/git-lfs/git-lfs/v3/config"
	"github.com/git-lfs/git-lfs/v3/errors"
	"github.com/git-lfs/git-lfs/v3/fs"
	"github.com/git-lfs/git-lfs/v3/git"
	"github.com/git-lfs/git-lfs/v3/lfs"
)

type verifExit13 struct{ code int }

func verifOsExit13(code int) { panic(verifExit13{code}) }

func verifNoop13()                      {}
func verifNoopForce13(force bool) error { return nil }

// VerifC13_FsckCommand: the whole `git lfs fsck` over scripted scans: it
// succeeds exactly when every checked object exists with content hashing to
// its id (or is absent with size 0) and every checked pointer is canonical and
// every tracked file is a pointer; corrupt objects - and only they - are moved
// to lfs/bad, missing ones are reported, intact ones untouched; --dry-run
// moves nothing; --objects / --pointers restrict what is checked.
func VerifC13_FsckCommand() {
	root := verifTempDir()
	config.VerifFS = &fs.Filesystem{LFSStorageDir: root + "/lfs"}
	config.VerifTmp = root + "/lfs/tmp"
	verifFSWrite(root+"/lfs/objects/.keep", "", 0644)
	verifOverride("github.com/git-lfs/git-lfs/v3/commands.Print", verifNoPrint)
	verifOverride("os.Exit", verifOsExit13)
	cfg = &config.Configuration{
		Git: config.EnvironmentOf(config.MapFetcher(map[string][]string{})),
		Os:  config.EnvironmentOf(config.MapFetcher(map[string][]string{})),
	}
	git.VerifHeadRef = &git.Ref{Name: "main", Sha: "1111111111111111111111111111111111111111"}
	fsckObjects = verifChoose("--objects", 2) == 1
	fsckPointers = verifChoose("--pointers", 2) == 1
	fsckDryRun = verifChoose("--dry-run", 2) == 1
	checkObjects := fsckObjects || !fsckPointers
	checkPointers := fsckPointers || !fsckObjects

	n := verifBound("objects", 2, 3)
	lfs.VerifScanRefs = nil
	lfs.VerifScanByTree = nil
	type obj struct {
		oid, path, content string
		state              int // 0 intact, 1 corrupt, 2 missing
	}
	var objs []obj
	damagedObject, damagedPointer := false, false
	for k := 0; k < n; k++ {
		orig := verifNondetString("original")
		verifAssume(len(orig) >= 1 && len(orig) <= 40)
		oid := verifHashHex([]byte(orig))
		for _, o := range objs {
			verifAssume(oid != o.oid)
		}
		path := config.VerifFS.ObjectPathname(oid)
		o := obj{oid: oid, path: path, state: verifChoose("object.state", 3)}
		switch o.state {
		case 0:
			o.content = orig
			verifFSWrite(path, o.content, 0444)
		case 1:
			o.content = verifNondetString("damaged")
			verifAssume(len(o.content) <= 48 && o.content != orig)
			verifAssume(verifHashHex([]byte(o.content)) != oid)
			verifFSWrite(path, o.content, 0444)
			damagedObject = true
		case 2:
			damagedObject = true
		}
		objs = append(objs, o)
		// every object under a path of its own, or - two versions of one file,
		// committed and staged, or two commits of a range - under the same path
		name := "f" + string(rune('a'+k)) + ".bin"
		if k > 0 && verifChoose("same.path.as.first", 2) == 1 {
			name = "fa.bin"
		}
		p := &lfs.WrappedPointer{Name: name, Sha1: strings.Repeat(string(rune('a'+k)), 40), Pointer: lfs.NewPointer(oid, int64(len(orig)), nil)}
		lfs.VerifScanRefs = append(lfs.VerifScanRefs, p)
		// what the tree scan reports for the file
		switch verifChoose("pointer.state", 3) {
		case 0:
			q := *p
			q.Pointer = lfs.NewPointer(oid, int64(len(orig)), nil)
			q.Canonical = true
			lfs.VerifScanByTree = append(lfs.VerifScanByTree, lfs.VerifTreeItem{Pointer: &q})
		case 1:
			q := *p
			q.Pointer = lfs.NewPointer(oid, int64(len(orig)), nil)
			q.Canonical = false
			lfs.VerifScanByTree = append(lfs.VerifScanByTree, lfs.VerifTreeItem{Pointer: &q})
			damagedPointer = true
		case 2:
			lfs.VerifScanByTree = append(lfs.VerifScanByTree, lfs.VerifTreeItem{Err: errors.NewPointerScanError(errors.NewNotAPointerError(nil), "tree", p.Name)})
			damagedPointer = true
		}
	}
	exit := -1
	func() {
		defer func() {
			if r := recover(); r != nil {
				e, ok := r.(verifExit13)
				if !ok {
					panic(r)
				}
				exit = e.code
			}
		}()
		fsckCommand(nil, nil)
		exit = 0
	}()
	wantFail := (checkObjects && damagedObject) || (checkPointers && damagedPointer)
	if wantFail {
		verifCover("damage-reported")
		verifAssert(exit == 1, "fsck fails when a checked object or pointer is damaged")
	} else {
		verifCover("all-good")
		verifAssert(exit == 0, "fsck succeeds when everything it checks is intact")
	}
	for _, o := range objs {
		after, exists := verifFSRead(o.path)
		bad, inBad := verifFSRead(root + "/lfs/bad/" + o.oid)
		switch o.state {
		case 0:
			verifAssert(exists && after == o.content && !inBad, "an intact object is never touched")
		case 1:
			if checkObjects && !fsckDryRun {
				verifCover("moved-aside")
				verifAssert(!exists && inBad && bad == o.content, "a corrupt object is moved to lfs/bad, not deleted")
			} else {
				verifAssert(exists && after == o.content && !inBad, "--dry-run (or --pointers alone) changes nothing")
			}
		case 2:
			verifAssert(!exists && !inBad, "a missing object is only reported")
		}
	}
}
