package commands

import (
	"github.com/git-lfs/git-lfs/v3/config"
	"github.com/git-lfs/git-lfs/v3/fs"
)

func verifNoPrint(format string, args ...interface{}) {}

// VerifC13_FsckPointer: an object is reported intact exactly when its file
// exists with content hashing to the id, or is absent while the pointer says
// size 0; checking never modifies local storage.
func VerifC13_FsckPointer() {
	root := verifTempDir()
	config.VerifFS = &fs.Filesystem{LFSStorageDir: root + "/lfs"}
	verifOverride("github.com/git-lfs/git-lfs/v3/commands.Print", verifNoPrint)
	orig := verifNondetString("original")
	verifAssume(len(orig) >= 1 && len(orig) <= 64)
	oid := verifHashHex([]byte(orig))
	verifAssume(oid != fs.EmptyObjectSHA256)
	size := verifNondetInt64("pointer.size")
	verifAssume(size >= 0)
	path := config.VerifFS.ObjectPathname(oid)
	state := verifChoose("object.state", 3)
	stored := ""
	switch state {
	case 0: // intact
		stored = orig
		verifFSWrite(path, stored, 0444)
	case 1: // damaged: any other content (truncated, extended, flipped, replaced)
		stored = verifNondetString("damaged")
		verifAssume(len(stored) <= 80 && stored != orig)
		verifAssume(verifHashHex([]byte(stored)) != oid) // SHA-256 collisions are outside the model
		verifFSWrite(path, stored, 0444)
	case 2: // missing
		verifFSWrite(root+"/lfs/objects/.keep", "", 0644)
	}
	ok, err := fsckPointer("file.bin", oid, size)
	verifAssert(err == nil, "checking an object does not fail")
	switch state {
	case 0:
		verifCover("intact")
		verifAssert(ok, "an intact object is reported intact")
	case 1:
		verifCover("damaged")
		verifAssert(!ok, "a damaged object is reported")
	case 2:
		verifCover("missing")
		verifAssert(ok == (size == 0), "a missing object is acceptable only for an empty file")
	}
	if state != 2 {
		after, exists := verifFSRead(path)
		verifAssert(exists && after == stored, "checking never modifies the object")
	} else {
		verifAssert(!verifFSExists(path), "checking never creates an object")
	}
}
