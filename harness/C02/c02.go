package tq

import (
	"io"
	"net/http"
	"strings"

	"github.com/git-lfs/git-lfs/v3/errors"
	"github.com/git-lfs/git-lfs/v3/fs"
)

type verifNoEnv struct{}

func (verifNoEnv) Get(key string) (string, bool) { return "", false }

// scripted server: one answer per request
type verifAnswer struct {
	transportError bool
	status         int
	contentRange   string
	body           string
	cutAfter       int // -1: whole body, else the connection breaks after this many bytes
}

var (
	verifAnswers  []verifAnswer
	verifRequests int
)

type verifBody struct {
	data string
	pos  int
	cut  int
}

func (b *verifBody) Read(p []byte) (int, error) {
	limit := len(b.data)
	if b.cut >= 0 && b.cut < limit {
		limit = b.cut
	}
	if b.pos >= limit {
		if b.cut >= 0 && b.cut < len(b.data) {
			return 0, io.ErrUnexpectedEOF
		}
		return 0, io.EOF
	}
	n := copy(p, b.data[b.pos:limit])
	b.pos += n
	return n, nil
}

func (b *verifBody) Close() error { return nil }

func verifMakeRequestStub(a *basicDownloadAdapter, t *Transfer, req *http.Request) (*http.Response, error) {
	k := verifRequests
	verifRequests++
	if k >= len(verifAnswers) {
		return nil, errors.New("no more scripted answers")
	}
	ans := verifAnswers[k]
	if ans.transportError {
		return nil, errors.New("connection refused")
	}
	res := &http.Response{StatusCode: ans.status, Header: http.Header{}, ContentLength: int64(len(ans.body))}
	if ans.contentRange != "" {
		res.Header.Set("Content-Range", ans.contentRange)
	}
	res.Body = &verifBody{data: ans.body, cut: ans.cutAfter}
	if ans.status >= 400 {
		return res, errors.New("http error status")
	}
	return res, nil
}

func verifNewHTTPRequestStub(a *adapterBase, method string, rel *Action) (*http.Request, error) {
	return http.NewRequest(method, "https://example.com/object", nil)
}

// verifScriptAnswer: an arbitrary server answer for a download request.
func verifScriptAnswer(expected string, resumeFrom int) verifAnswer {
	ans := verifAnswer{cutAfter: -1}
	switch verifChoose("answer.kind", 6) {
	case 0:
		ans.transportError = true
	case 1: // 200 with the right body
		ans.status, ans.body = 200, expected
	case 2: // 200 with some other body (truncated, padded, corrupted, substituted)
		ans.status = 200
		ans.body = verifNondetString("wrong.body")
		verifAssume(len(ans.body) <= 48)
	case 3: // 206 with a range header and the suffix from an arbitrary offset
		ans.status = 206
		start := verifNondetString("range.start")
		verifAssumeAlphabet(start, "09")
		verifAssume(len(start) >= 1 && len(start) <= 3)
		ans.contentRange = "bytes " + start + "-9/10"
		ans.body = verifNondetString("range.body")
		verifAssume(len(ans.body) <= 48)
	case 4: // 206 without or with a malformed Content-Range
		ans.status = 206
		ans.contentRange = []string{"", "bytes x-y/z", "items 0-1/2"}[verifChoose("bad.range", 3)]
		ans.body = verifNondetString("range.body")
		verifAssume(len(ans.body) <= 48)
	case 5: // error status
		ans.status = []int{416, 429, 500, 404}[verifChoose("error.status", 4)]
	}
	if ans.status == 200 || ans.status == 206 {
		if verifChoose("connection.cut", 2) == 1 {
			ans.cutAfter = verifNondetInt("cut.after")
			verifAssume(ans.cutAfter >= 0 && ans.cutAfter < len(ans.body))
		}
	}
	return ans
}

// VerifC02_BasicDownload: whatever the server answers and whatever partial or
// final file exists beforehand: success => the file at the object's path hashes
// to the requested oid; failure => that path is untouched; no temporary file of
// this transfer is left outside incomplete/.
func VerifC02_BasicDownload() {
	root := verifTempDir()
	a := &basicDownloadAdapter{&adapterBase{fs: fs.New(verifNoEnv{}, root+"/.git", root, root+"/lfs", 0644)}}
	// the object itself is one fixed byte string (its bytes never matter, only
	// equality with what the server sends and with what is stored); everything
	// the server and the file system contribute is arbitrary
	expected := "The quick brown fox jumps over the lazy dog"
	oid := verifHashHex([]byte(expected))
	path := root + "/lfs/objects/final-" + "object"
	t := &Transfer{Name: "file.bin", Oid: oid, Size: int64(len(expected)), Path: path,
		Actions: ActionSet{"download": &Action{Href: "https://example.com/object"}}}
	verifFSWrite(root+"/lfs/objects/.keep", "", 0644)
	verifFSWrite(root+"/lfs/incomplete/.keep", "", 0644)
	// pre-existing partial download
	partPath := a.downloadFilename(t)
	part := ""
	hasPart := verifChoose("part.state", 2) == 1
	if hasPart {
		part = verifNondetString("part.content")
		verifAssume(len(part) >= 1 && len(part) <= 48)
		verifFSWrite(partPath, part, 0644)
	}
	// pre-existing final file (e.g. written by another git-lfs process, or stale)
	preFinal := ""
	hasFinal := verifChoose("final.state", 2) == 1
	if hasFinal {
		preFinal = verifNondetString("final.content")
		verifAssume(len(preFinal) <= 40)
		verifFSWrite(path, preFinal, 0644)
	}
	verifAnswers = nil
	verifRequests = 0
	n := 1 + verifChoose("answers", verifBound("requests", 2, 3))
	for k := 0; k < n; k++ {
		verifAnswers = append(verifAnswers, verifScriptAnswer(expected, len(part)))
	}
	// SHA-256 collisions are outside the model: other strings in play hash differently
	for _, ans := range verifAnswers {
		verifAssume(verifOr(ans.body == expected, verifHashHex([]byte(ans.body)) != oid))
		if hasPart {
			verifAssume(verifOr(part+ans.body == expected, verifHashHex([]byte(part+ans.body)) != oid))
		}
	}

	err := a.DoTransfer(nil, t, nil, nil)

	after, exists := verifFSRead(path)
	if err == nil {
		verifCover("reported-success")
		verifAssert(exists, "a successful download leaves the object file")
		verifAssert(verifHashHex([]byte(after)) == oid, "the object file hashes to the requested oid")
	} else {
		verifCover("reported-failure")
		verifObserve("error", err.Error())
		if hasFinal {
			verifAssert(exists && after == preFinal, "a failed download does not replace the file at the final location")
		} else {
			verifAssert(!exists, "a failed download does not create the file at the final location")
		}
	}
	leftovers := verifFSCount(root+"/lfs/objects/") - 1
	if exists {
		leftovers--
	}
	verifAssert(leftovers == 0, "nothing but the object itself appears in local object storage")
	verifAssert(strings.HasPrefix(partPath, root+"/lfs/incomplete/"), "partial downloads live in lfs/incomplete")
}
