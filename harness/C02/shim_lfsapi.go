package lfsapi

import "net/http"

func verifLogRequestStub(c *Client, r *http.Request, reqKey string) *http.Request { return r }
