package tq

import (
	"github.com/git-lfs/git-lfs/v3/errors"
	"github.com/git-lfs/git-lfs/v3/fs"
)

// scripted custom transfer agent: the messages it answers with
var verifAgentReplies []*customAdapterResponseMessage

func verifSendMessageStub(a *customAdapter, ctx *customAdapterWorkerContext, req interface{}) error {
	return nil
}

func verifReadResponseStub(a *customAdapter, ctx *customAdapterWorkerContext) (*customAdapterResponseMessage, error) {
	if len(verifAgentReplies) == 0 {
		return nil, errors.New("the agent closed its output")
	}
	r := verifAgentReplies[0]
	verifAgentReplies = verifAgentReplies[1:]
	return r, nil
}

// VerifC02_CustomDownload: a download through a custom (or standalone)
// transfer agent: whatever the agent reports and whatever file it hands over,
// and whatever already sits at the object's final location (nothing, the right
// object, a stale or corrupt file of any size - also of exactly the right
// size), success means the file at the final location hashes to the oid, and
// failure leaves that location untouched.
func VerifC02_CustomDownload() {
	root := verifTempDir()
	a := newCustomAdapter(fs.New(verifNoEnv{}, root+"/.git", root, root+"/lfs", 0644), "agent", Download, "agent-binary", "", false, verifChoose("standalone", 2) == 1)
	expected := "The quick brown fox jumps over the lazy dog"
	oid := verifHashHex([]byte(expected))
	path := root + "/lfs/objects/final-object"
	t := &Transfer{Name: "file.bin", Oid: oid, Size: int64(len(expected)), Path: path,
		Actions: ActionSet{"download": &Action{Href: "https://example.com/object"}}}
	verifFSWrite(root+"/lfs/objects/.keep", "", 0644)
	verifFSWrite(root+"/lfs/tmp/.keep", "", 0644)
	// what is at the final location beforehand
	preFinal := ""
	hasFinal := verifChoose("final.state", 2) == 1
	if hasFinal {
		switch verifChoose("final.kind", 3) {
		case 0:
			preFinal = expected
		case 1: // same length, other bytes (a corrupted object being repaired)
			preFinal = verifNondetString("final.same.size")
			verifAssume(len(preFinal) == len(expected) && preFinal != expected)
		case 2:
			preFinal = verifNondetString("final.other")
			verifAssume(len(preFinal) <= 60 && len(preFinal) != len(expected))
		}
		verifAssume(verifOr(preFinal == expected, verifHashHex([]byte(preFinal)) != oid))
		verifFSWrite(path, preFinal, 0644)
	}
	// what the agent wrote
	agentFile := root + "/lfs/tmp/agent-output"
	delivered := expected
	switch verifChoose("agent.file", 3) {
	case 1: // something else
		delivered = verifNondetString("agent.content")
		verifAssume(len(delivered) <= 60 && delivered != expected)
		verifAssume(verifHashHex([]byte(delivered)) != oid)
	case 2: // the object followed by more bytes
		extra := verifNondetString("agent.trailing.bytes")
		verifAssume(len(extra) >= 1 && len(extra) <= 20)
		delivered = expected + extra
		verifAssume(verifHashHex([]byte(delivered)) != oid)
	}
	verifFSWrite(agentFile, delivered, 0600)
	// what the agent says
	verifAgentReplies = nil
	if verifChoose("progress.first", 2) == 1 {
		verifAgentReplies = append(verifAgentReplies, &customAdapterResponseMessage{Event: "progress", Oid: oid, BytesSoFar: 10, BytesSinceLast: 10})
	}
	final := &customAdapterResponseMessage{Event: "complete", Oid: oid, Path: agentFile}
	switch verifChoose("agent.answer", 4) {
	case 1:
		final.Error = &ObjectError{Code: 2, Message: "agent failed"}
	case 2:
		final.Oid = "0000000000000000000000000000000000000000000000000000000000000000"
	case 3:
		final.Event = "bogus"
	}
	verifAgentReplies = append(verifAgentReplies, final)

	err := a.DoTransfer(&customAdapterWorkerContext{}, t, nil, nil)

	after, exists := verifFSRead(path)
	if err == nil {
		verifCover("reported-success")
		verifAssert(exists && verifHashHex([]byte(after)) == oid, "a successful download leaves a file hashing to the oid at the final location")
	} else {
		verifCover("reported-failure")
		if hasFinal {
			verifAssert(exists && after == preFinal, "a failed download does not replace the file at the final location")
		} else {
			verifAssert(!exists, "a failed download does not create the file at the final location")
		}
	}
}
