package creds

import "strings"

// VerifC17_Buffer: Creds.buffer refuses exactly the values that could inject a
// protocol line and otherwise serialises exactly the supplied pairs (keys in
// any order, the values of one key in the order given).
func VerifC17_Buffer() {
	maxLen := verifBound("value.len", 12, 64)
	keys := []string{"protocol", "host", "path", "username", "password", "wwwauth[]", "state[]"}
	nkeys := verifBound("keys", 2, 3)
	protect := verifNondetBool("protect")
	c := Creds{}
	var blocks []string
	bad := false
	for i := 0; i < nkeys; i++ {
		k := keys[verifChoose("key", len(keys))]
		if _, dup := c[k]; dup {
			verifAssume(false)
		}
		nv := 1 + verifChoose("nvals", 2)
		block := ""
		for j := 0; j < nv; j++ {
			v := verifNondetString("val")
			verifAssume(len(v) <= maxLen)
			c[k] = append(c[k], v)
			block += k + "=" + v + "\n"
			bad = verifOr(bad, verifOr(strings.Contains(v, "\n"), verifOr(strings.Contains(v, "\x00"), verifAnd(protect, strings.Contains(v, "\r")))))
		}
		blocks = append(blocks, block)
	}
	buf, err := c.buffer(protect)
	if bad {
		verifCover("refused")
		verifAssert(err != nil, "value with LF, NUL (or CR under protection) is refused")
		verifAssert(buf == nil, "no buffer is returned on refusal")
		return
	}
	verifCover("accepted")
	verifAssert(err == nil, "clean values are accepted")
	out := buf.String()
	verifObserve("outlen", len(out))
	const header = "capability[]=authtype\ncapability[]=state\n"
	ok := false
	for _, perm := range verifPerms(len(blocks)) {
		want := header
		for _, ix := range perm {
			want += blocks[ix]
		}
		ok = verifOr(ok, out == want)
	}
	verifAssert(ok, "helper input is exactly the capability lines plus one key=value line per item")
}

func verifPerms(n int) [][]int {
	if n == 0 {
		return [][]int{{}}
	}
	var out [][]int
	for _, p := range verifPerms(n - 1) {
		for pos := 0; pos <= len(p); pos++ {
			q := append([]int{}, p[:pos]...)
			q = append(q, n-1)
			q = append(q, p[pos:]...)
			out = append(out, q)
		}
	}
	return out
}

// VerifC17_SingleValue: the same property for one key with one value; cheap
// enough to leave every byte position of the value to the solver even when the
// code under test scans the value byte by byte.
func VerifC17_SingleValue() {
	keys := []string{"protocol", "host", "path", "username", "password", "wwwauth[]", "state[]"}
	k := keys[verifChoose("key", len(keys))]
	protect := verifNondetBool("protect")
	v := verifNondetString("val")
	verifAssume(len(v) <= verifBound("single.value.len", 5, 7))
	bad := verifOr(strings.Contains(v, "\n"), verifOr(strings.Contains(v, "\x00"), verifAnd(protect, strings.Contains(v, "\r"))))
	buf, err := Creds{k: []string{v}}.buffer(protect)
	if bad {
		verifCover("single-refused")
		verifAssert(err != nil && buf == nil, "a value with LF, NUL (or CR under protection) is refused wherever the byte sits")
		return
	}
	verifCover("single-accepted")
	verifAssert(err == nil && buf.String() == "capability[]=authtype\ncapability[]=state\n"+k+"="+v+"\n", "a clean value is passed on exactly")
}
