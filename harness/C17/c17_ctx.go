package creds

import (
	"net/url"

	"github.com/git-lfs/git-lfs/v3/config"
)

// VerifC17_ProtectPerURL: whether a carriage return is refused is decided per
// URL by credential[.<url>].protectProtocol (default: protected), for every
// lookup of one process anew: after a lookup for a host whose configuration
// switches the protection off, a lookup for another host is protected again
// (one helper context serves every URL of the process).
func VerifC17_ProtectPerURL() {
	gitcfg := map[string][]string{}
	scope := verifChoose("optout.scope", 3)
	switch scope {
	case 1: // for one host only
		gitcfg["credential.https://legacy.example.com.protectprotocol"] = []string{"false"}
	case 2: // for every URL
		gitcfg["credential.protectprotocol"] = []string{"false"}
	}
	ctxt := NewCredentialHelperContext(config.EnvironmentOf(config.MapFetcher(gitcfg)), config.EnvironmentOf(config.MapFetcher(map[string][]string{})))
	hosts := []string{"legacy.example.com", "git.example.com"}
	n := 2 + verifChoose("more.lookups", 2)
	for k := 0; k < n; k++ {
		h := hosts[verifChoose("lookup.host", 2)]
		w := ctxt.GetCredentialHelper(nil, &url.URL{Scheme: "https", Host: h, Path: "/org/repo.git"})
		verifAssert(w.Input["host"][0] == h, "the helper is asked about the host of the lookup")
		protected := !(scope == 2 || (scope == 1 && h == hosts[0]))
		// what the command helper would write to `git credential fill` for a
		// value with a carriage return
		in := Creds{"protocol": []string{"https"}, "host": []string{h}, "username": []string{"us\rer"}}
		_, err := in.buffer(ctxt.commandCredHelper.protectProtocol)
		if protected {
			verifCover("protected")
			verifAssert(err != nil, "a carriage return is refused for a URL whose protocol protection is enabled, whatever was looked up before")
		} else {
			verifCover("opted-out")
			verifAssert(err == nil, "and passed on for a URL whose configuration switches the protection off")
		}
	}
}
