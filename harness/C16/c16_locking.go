package locking

import "strings"

// VerifC16_LockCache: after any sequence of add / remove-by-path /
// remove-by-id the cached list of own locks equals the set of locks granted
// and not released (by path and by id).
func VerifC16_LockCache() {
	c, err := NewLockCache("")
	verifAssert(err == nil, "an in-memory cache can be created")
	// one path and one id are arbitrary strings, the others fixed
	p0 := verifNondetString("path")
	id0 := verifNondetString("id")
	verifAssume(len(p0) >= 1 && len(p0) <= 12 && len(id0) >= 1 && len(id0) <= 8)
	verifAssume(p0 != "dir/b.bin" && p0 != "c d.bin" && id0 != "id-2" && id0 != "id-3")
	verifKnown("C16-F13-path-looks-like-id-key", verifOr(strings.HasPrefix(p0, "*id*://"), strings.HasPrefix(id0, "*id*://")))
	paths := []string{p0, "dir/b.bin", "c d.bin"}
	ids := []string{id0, "id-2", "id-3"}
	held := map[string]bool{}
	cur := []string{ids[0], ids[1], ids[2]} // the id under which each path is currently locked
	gen := 0
	steps := verifBound("steps", 3, 5)
	for s := 0; s < steps; s++ {
		k := verifChoose("object", len(paths))
		switch verifChoose("op", 4) {
		case 0:
			c.Add(Lock{Id: cur[k], Path: paths[k]})
			held[paths[k]] = true
		case 1:
			c.RemoveByPath(paths[k])
			delete(held, paths[k])
		case 2:
			c.RemoveById(cur[k])
			delete(held, paths[k])
		case 3:
			// the lock was released on the server by someone else and is taken
			// again: same path, new id (the cache is not told about the release)
			gen++
			cur[k] = "relock-" + string(rune('0'+gen)) + "-" + string(rune('a'+k))
			c.Add(Lock{Id: cur[k], Path: paths[k]})
			held[paths[k]] = true
		}
	}
	ids = cur
	locks := c.Locks()
	verifCover("sequence")
	verifAssert(len(locks) == len(held), "the cache lists exactly the locks that are held")
	seen := map[string]bool{}
	for _, l := range locks {
		verifAssert(held[l.Path] && !seen[l.Path], "every cached lock is held, once")
		seen[l.Path] = true
		for k := range paths {
			if paths[k] == l.Path {
				verifAssert(l.Id == ids[k], "the cached id belongs to the path")
			}
		}
	}
	c.Clear()
	verifAssert(len(c.Locks()) == 0, "clearing empties the cache")
}
