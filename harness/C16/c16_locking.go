package locking

import "strings"

// VerifC16_LockCache: after any sequence of add / remove-by-path /
// remove-by-id the cached list of own locks equals the set of locks granted
// and not released (by path and by id).
func VerifC16_LockCache() {
	c, err := NewLockCache("")
	verifAssert(err == nil, "an in-memory cache can be created")
	// one path and one id are arbitrary strings, the others fixed
	p0 := verifNondetString("path")
	id0 := verifNondetString("id")
	verifAssume(len(p0) >= 1 && len(p0) <= 12 && len(id0) >= 1 && len(id0) <= 8)
	verifAssume(p0 != "dir/b.bin" && p0 != "c d.bin" && id0 != "id-2" && id0 != "id-3")
	verifKnown("C16-F13-path-looks-like-id-key", verifOr(strings.HasPrefix(p0, "*id*://"), strings.HasPrefix(id0, "*id*://")))
	paths := []string{p0, "dir/b.bin", "c d.bin"}
	ids := []string{id0, "id-2", "id-3"}
	held := map[string]bool{}
	steps := verifBound("steps", 3, 5)
	for s := 0; s < steps; s++ {
		k := verifChoose("object", len(paths))
		switch verifChoose("op", 3) {
		case 0:
			c.Add(Lock{Id: ids[k], Path: paths[k]})
			held[paths[k]] = true
		case 1:
			c.RemoveByPath(paths[k])
			delete(held, paths[k])
		case 2:
			c.RemoveById(ids[k])
			delete(held, paths[k])
		}
	}
	locks := c.Locks()
	verifCover("sequence")
	verifAssert(len(locks) == len(held), "the cache lists exactly the locks that are held")
	seen := map[string]bool{}
	for _, l := range locks {
		verifAssert(held[l.Path] && !seen[l.Path], "every cached lock is held, once")
		seen[l.Path] = true
		for k := range paths {
			if paths[k] == l.Path {
				verifAssert(l.Id == ids[k], "the cached id belongs to the path")
			}
		}
	}
	c.Clear()
	verifAssert(len(c.Locks()) == 0, "clearing empties the cache")
}
