package commands

import (
	"io"

	"github.com/git-lfs/git-lfs/v3/config"
	"github.com/git-lfs/git-lfs/v3/git"
	"github.com/git-lfs/git-lfs/v3/lfs"
	"github.com/git-lfs/git-lfs/v3/locking"
	"github.com/git-lfs/git-lfs/v3/tools"
)

type verifExit16 struct{}

func verifExitStub16(format string, args ...interface{}) { panic(verifExit16{}) }
func verifExitErrStub16(err error)                       { panic(verifExit16{}) }

var verifRoot16 string

func verifNewLockClientStub16() *locking.Client        { return locking.VerifNewRefClient(verifRoot16) }
func verifSilent16(format string, args ...interface{}) {}
func verifDisableForStub16(rawurl string) error        { return nil }

// VerifC16_PushVerification: a push of one or two refs (also a branch and a
// tag of the same short name) with lock verification enabled, disabled or
// unset: every pushed ref is verified with the server exactly once (none when
// disabled); a file locked by another user on a pushed ref is not uploaded
// and - when verification is enabled - the push is rejected; files locked by
// the pusher and unlocked files are uploaded; when unset, other users' locks
// only produce a warning.
func VerifC16_PushVerification() {
	verifRoot16 = verifTempDir()
	verifFSWrite(verifRoot16+"/lfs/cache/.keep", "", 0644)
	verifOverride("(*github.com/git-lfs/git-lfs/v3/locking.Client).EncodeLocksVerifiable", func(c *locking.Client, ours, theirs []locking.Lock, w io.Writer) error { return nil })
	verifOverride("github.com/git-lfs/git-lfs/v3/commands.Print", verifSilent16)
	verifOverride("github.com/git-lfs/git-lfs/v3/commands.Error", verifSilent16)
	cfg = &config.Configuration{
		Git: config.EnvironmentOf(config.MapFetcher(map[string][]string{})),
		Os:  config.EnvironmentOf(config.MapFetcher(map[string][]string{})),
	}
	state := []verifyState{verifyStateUnknown, verifyStateEnabled, verifyStateDisabled}[verifChoose("locksverify", 3)]
	lv := &lockVerifier{verifyState: state, verifiedRefs: map[string]bool{}, ourLocks: map[string]*refLock{}, theirLocks: map[string]*refLock{}}
	// the refs of this push
	refKinds := [][2]string{{"refs/heads/", "main"}, {"refs/heads/", "v2"}, {"refs/tags/", "v2"}}
	n := 1 + verifChoose("refs.pushed", 2)
	var updates []*git.RefUpdate
	var refspecs []string
	used := map[int]bool{}
	for k := 0; k < n; k++ {
		j := verifChoose("ref", len(refKinds))
		verifAssume(!used[j])
		used[j] = true
		spec := refKinds[j][0] + refKinds[j][1]
		remote := git.ParseRef(spec, "2222222222222222222222222222222222222222")
		local := git.ParseRef(spec, "1111111111111111111111111111111111111111")
		updates = append(updates, git.NewRefUpdate(cfg.Git, "origin", local, remote))
		refspecs = append(refspecs, spec)
	}
	// the server's locks, per ref: file a.dat may be locked by them, b.dat by us
	locking.VerifServerByRef = map[string]locking.VerifRefLocks{}
	locking.VerifVerifyCalls = nil
	locking.VerifServerFails = 0
	theirsOn := map[string]bool{}
	for _, spec := range refspecs {
		var rl locking.VerifRefLocks
		if verifChoose("a.locked.by.them", 2) == 1 {
			rl.Theirs = append(rl.Theirs, locking.Lock{Id: "t-" + spec, Path: "a.dat", Owner: &locking.User{Name: "alice"}})
			theirsOn[spec] = true
		}
		if verifChoose("b.locked.by.us", 2) == 1 {
			rl.Ours = append(rl.Ours, locking.Lock{Id: "o-" + spec, Path: "b.dat", Owner: &locking.User{Name: "me"}})
		}
		locking.VerifServerByRef[spec] = rl
	}
	lockedByThem := len(theirsOn) > 0

	verifyLocksForUpdates(lv, updates)

	if state == verifyStateDisabled {
		verifCover("verification-disabled")
		verifAssert(len(locking.VerifVerifyCalls) == 0, "with lfs.<url>.locksverify=false the server is not asked")
	} else {
		verifCover("refs-verified")
		verifAssert(len(locking.VerifVerifyCalls) == len(refspecs), "every pushed ref is verified exactly once")
		for k, spec := range refspecs {
			verifAssert(k < len(locking.VerifVerifyCalls) && locking.VerifVerifyCalls[k] == spec, "each under its fully qualified name")
		}
	}

	ctx := &uploadContext{Remote: "origin", uploadedOids: tools.NewStringSet(), lockVerifier: lv,
		missing: map[string]string{}, corrupt: map[string]string{}}
	oidA, oidB, oidC := "aaaaaaaaaaaaaaaaaaaaaaaaaaaaaaaaaaaaaaaaaaaaaaaaaaaaaaaaaaaaaaaa", "bbbbbbbbbbbbbbbbbbbbbbbbbbbbbbbbbbbbbbbbbbbbbbbbbbbbbbbbbbbbbbbb", "cccccccccccccccccccccccccccccccccccccccccccccccccccccccccccccccc"
	ups := ctx.prepareUpload(
		&lfs.WrappedPointer{Name: "a.dat", Pointer: lfs.NewPointer(oidA, 10, nil)},
		&lfs.WrappedPointer{Name: "b.dat", Pointer: lfs.NewPointer(oidB, 10, nil)},
		&lfs.WrappedPointer{Name: "c.dat", Pointer: lfs.NewPointer(oidC, 10, nil)})
	has := func(oid string) bool {
		for _, p := range ups {
			if p.Oid == oid {
				return true
			}
		}
		return false
	}
	verifAssert(has(oidB) && has(oidC), "files locked by the pusher, and unlocked files, are uploaded")
	if state == verifyStateEnabled && lockedByThem {
		verifCover("blocked")
		verifAssert(!has(oidA), "with verification enabled a file locked by another user is not uploaded")
	}
	if !(state != verifyStateDisabled && lockedByThem) {
		verifAssert(has(oidA), "a file nobody else has locked is uploaded")
	}
	rejected := false
	func() {
		defer func() {
			if r := recover(); r != nil {
				if _, ok := r.(verifExit16); !ok {
					panic(r)
				}
				rejected = true
			}
		}()
		ctx.ReportErrors()
	}()
	if state == verifyStateEnabled && lockedByThem {
		verifAssert(rejected, "and the push is rejected")
	} else {
		verifCover("accepted")
		verifAssert(!rejected, "otherwise the push is not rejected because of locks")
	}
}
