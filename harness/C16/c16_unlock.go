package commands

import (
	"io"

	"github.com/git-lfs/git-lfs/v3/config"
	"github.com/git-lfs/git-lfs/v3/git"
	"github.com/git-lfs/git-lfs/v3/locking"
)

var (
	verifModified    map[string]bool
	verifStatusFails bool
)

func verifIsFileModifiedStub16(path string) (bool, error) {
	if verifStatusFails {
		return false, io.ErrUnexpectedEOF
	}
	return verifModified[path], nil
}

func verifComputeLockDataStub16() (*lockData, error) { return &lockData{}, nil }

func verifLockPathStub16(data *lockData, file string) (string, error) { return file, nil }

type verifOsExit16 struct{ code int }

func verifOsExitStub16(code int) { panic(verifOsExit16{code}) }

// VerifC16_UnlockGuard: `git lfs unlock <path>` and `git lfs unlock --id <id>`
// release the lock of a file with uncommitted changes only with --force: for
// every combination of form, --force, modified / clean working-tree file and
// a lock known from the local cache or only from the server, the server is
// asked to release the lock exactly when the file is clean or --force was
// given.
func VerifC16_UnlockGuard() {
	verifRoot16 = verifTempDir()
	verifFSWrite(verifRoot16+"/lfs/cache/.keep", "", 0644)
	verifOverride("(*github.com/git-lfs/git-lfs/v3/locking.Client).EncodeLocks", func(c *locking.Client, locks []locking.Lock, w io.Writer) error { return nil })
	verifOverride("github.com/git-lfs/git-lfs/v3/commands.Print", verifSilent16)
	verifOverride("github.com/git-lfs/git-lfs/v3/commands.Error", verifSilent16)
	verifOverride("os.Exit", verifOsExitStub16)
	cfg = &config.Configuration{
		Git: config.EnvironmentOf(config.MapFetcher(map[string][]string{})),
		Os:  config.EnvironmentOf(config.MapFetcher(map[string][]string{})),
	}
	locking.VerifHeld = []locking.Lock{{Id: "id-7", Path: "art/a.dat", Owner: &locking.User{Name: "me"}}}
	locking.VerifUnlocked = nil
	lockRemote = ""
	locksCmdFlags.JSON = false
	byID := verifChoose("--id", 2) == 1
	force := verifChoose("--force", 2) == 1
	modified := verifChoose("file.modified", 2) == 1
	verifStatusFails = false
	verifModified = map[string]bool{"art/a.dat": modified}
	git.VerifIsFileModified = verifIsFileModifiedStub16
	unlockCmdFlags.Force = force
	var args []string
	if byID {
		unlockCmdFlags.Id = "id-7"
	} else {
		unlockCmdFlags.Id = ""
		args = []string{"art/a.dat"}
	}
	exit := 0
	func() {
		defer func() {
			if r := recover(); r != nil {
				switch e := r.(type) {
				case verifOsExit16:
					exit = e.code
				case verifExit16:
					exit = 2
				default:
					panic(r)
				}
			}
		}()
		unlockCommand(nil, args)
	}()
	released := len(locking.VerifUnlocked) > 0
	if modified && !force {
		verifCover("guarded")
		verifAssert(!released, "without --force the lock of a file with uncommitted changes is not released")
		verifAssert(exit != 0, "and the command fails")
	} else {
		verifCover("released")
		verifAssert(released && len(locking.VerifUnlocked) == 1, "otherwise the lock is released, once")
		want := "id-7"
		if force {
			want += " force"
		}
		verifAssert(locking.VerifUnlocked[0] == want, "by its id, with the caller's --force")
		verifAssert(exit == 0, "and the command succeeds")
	}
}
