package locking

import (
	"github.com/git-lfs/git-lfs/v3/config"
	"github.com/git-lfs/git-lfs/v3/git"
)

// VerifRefLocks: a lock server that keeps locks per ref (for harnesses of
// other packages): refspec -> (ours, theirs).
type VerifRefLocks struct {
	Ours, Theirs []Lock
}

var (
	VerifServerByRef map[string]VerifRefLocks
	VerifVerifyCalls []string // refspecs asked about
	VerifServerFails int      // 0 ok, 403, 404, 500
)

type verifRefServer struct{}

func (s verifRefServer) Lock(remote string, req *lockRequest) (*lockResponse, int, error) {
	return &lockResponse{Message: "not supported by this stub"}, 500, nil
}

// VerifHeld: the locks the server holds (for Search / Unlock); VerifUnlocked:
// ids the client asked to release, in order, with the force flag.
var (
	VerifHeld     []Lock
	VerifUnlocked []string
)

func (s verifRefServer) Unlock(ref *git.Ref, remote, id string, force bool) (*unlockResponse, int, error) {
	f := ""
	if force {
		f = " force"
	}
	VerifUnlocked = append(VerifUnlocked, id+f)
	for k, l := range VerifHeld {
		if l.Id == id {
			VerifHeld = append(VerifHeld[:k:k], VerifHeld[k+1:]...)
			return &unlockResponse{Lock: &Lock{Id: l.Id, Path: l.Path}}, 200, nil
		}
	}
	return &unlockResponse{Message: "no such lock"}, 404, nil
}
func (s verifRefServer) Search(remote string, req *lockSearchRequest) (*lockList, int, error) {
	var out []Lock
	for _, l := range VerifHeld {
		ok := true
		for _, f := range req.Filters {
			if f.Property == "path" && f.Value != l.Path {
				ok = false
			}
			if f.Property == "id" && f.Value != l.Id {
				ok = false
			}
		}
		if ok {
			out = append(out, l)
		}
	}
	return &lockList{Locks: out}, 200, nil
}
func (s verifRefServer) SearchVerifiable(remote string, req *lockVerifiableRequest) (*lockVerifiableList, int, error) {
	name := ""
	if req.Ref != nil {
		name = req.Ref.Name
	}
	VerifVerifyCalls = append(VerifVerifyCalls, name)
	switch VerifServerFails {
	case 403, 404:
		return &lockVerifiableList{}, VerifServerFails, verifSrvErr("status " + name)
	case 500:
		return &lockVerifiableList{}, 500, verifSrvErr("server error")
	}
	l := VerifServerByRef[name]
	return &lockVerifiableList{Ours: l.Ours, Theirs: l.Theirs}, 200, nil
}

type verifSrvErr string

func (e verifSrvErr) Error() string { return string(e) }

// VerifNewRefClient: a lock client talking to the per-ref stub server, with
// no local cache.
func VerifNewRefClient(root string) *Client {
	return &Client{Remote: "origin", client: verifRefServer{}, cache: &nilLockCacher{}, cacheDir: root + "/lfs/cache",
		cfg: &config.Configuration{Git: config.EnvironmentOf(config.MapFetcher(map[string][]string{})), Os: config.EnvironmentOf(config.MapFetcher(map[string][]string{}))}}
}
