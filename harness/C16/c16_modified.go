package git

import (
	"io"
	"os"
	"os/exec"
	"path/filepath"
	"strings"

	"github.com/git-lfs/git-lfs/v3/subprocess"
)

// ---- a model of what Git answers about ONE path (engine side); natively the
// same states are built in a real repository and real git is asked, so every
// replayed witness also validates this model against git itself.

const (
	verifStClean        = iota // committed, unchanged
	verifStModified            // edited, not staged
	verifStStaged              // edited and staged
	verifStStagedEdited        // staged, then edited again
	verifStUntracked           // never added
	verifStDeleted             // removed from the working tree
	verifStAdded               // newly added, never committed
	verifStates
)

var (
	verifMState int
	verifMPath  string
	verifMArgs  []string
)

// how `git status --porcelain` (without -z) spells a path: names with a
// space, a double quote, a backslash or a control character are C-quoted
// (core.quotepath=false: bytes >= 0x80 are left alone)
func verifGitQuoteShort(p string) string {
	if !strings.ContainsAny(p, " \"\\\t\n") {
		return p
	}
	q := strings.Replace(p, "\\", "\\\\", -1)
	q = strings.Replace(q, "\"", "\\\"", -1)
	q = strings.Replace(q, "\t", "\\t", -1)
	return "\"" + q + "\""
}

func verifGitAnswer(args []string) (string, bool) {
	has := func(s string) bool {
		for _, a := range args {
			if a == s {
				return true
			}
		}
		return false
	}
	pathArg := args[len(args)-1]
	if pathArg != verifMPath {
		return "", false
	}
	switch {
	case has("status") && has("--porcelain"):
		xy := []string{"", " M", "M ", "MM", "??", " D", "A "}[verifMState]
		if xy == "" {
			return "", true
		}
		if has("-z") {
			return xy + " " + verifMPath + "\x00", true
		}
		return xy + " " + verifGitQuoteShort(verifMPath) + "\n", true
	case has("ls-files"):
		// -m: working tree differs from the index; -o: untracked; -d: deleted; -c: in the index
		listed := false
		if has("--modified") || has("-m") {
			listed = listed || verifMState == verifStModified || verifMState == verifStStagedEdited || verifMState == verifStDeleted
		}
		if has("--others") || has("-o") {
			listed = listed || verifMState == verifStUntracked
		}
		if has("--deleted") || has("-d") {
			listed = listed || verifMState == verifStDeleted
		}
		if has("--cached") || has("-c") {
			listed = listed || verifMState != verifStUntracked
		}
		if !listed {
			return "", true
		}
		if has("-z") {
			return verifMPath + "\x00", true
		}
		return verifGitQuoteShort(verifMPath) + "\n", true
	}
	return "", false
}

type verifGitOut struct{ s string }

func (r *verifGitOut) Read(p []byte) (int, error) {
	if len(r.s) == 0 {
		return 0, os.ErrClosed
	}
	n := copy(p, r.s)
	r.s = r.s[n:]
	return n, nil
}
func (r *verifGitOut) Close() error { return nil }
func (r *verifGitOut) verifDrain() string {
	s := r.s
	r.s = ""
	return s
}

func verifGitModelCmd(args ...string) (*subprocess.Cmd, error) {
	verifMArgs = args
	return &subprocess.Cmd{}, nil
}

// natively: a real repository with the file in the wanted state
func verifRealRepo(dir, path string, state int) {
	run := func(args ...string) {
		c := exec.Command("git", append([]string{"-c", "user.name=v", "-c", "user.email=v@example.com", "-c", "init.defaultBranch=main", "-c", "core.autocrlf=false"}, args...)...)
		c.Dir = dir
		if out, err := c.CombinedOutput(); err != nil {
			panic("git " + strings.Join(args, " ") + ": " + err.Error() + ": " + string(out))
		}
	}
	full := filepath.Join(dir, filepath.FromSlash(path))
	os.MkdirAll(filepath.Dir(full), 0755)
	run("init", "-q", ".")
	os.WriteFile(filepath.Join(dir, "other.txt"), []byte("other\n"), 0644)
	run("add", "other.txt")
	if state != verifStUntracked && state != verifStAdded {
		os.WriteFile(full, []byte("one\n"), 0644)
		run("add", "--", path)
	}
	run("commit", "-q", "-m", "init")
	switch state {
	case verifStModified:
		os.WriteFile(full, []byte("two\n"), 0644)
	case verifStStaged:
		os.WriteFile(full, []byte("two\n"), 0644)
		run("add", "--", path)
	case verifStStagedEdited:
		os.WriteFile(full, []byte("two\n"), 0644)
		run("add", "--", path)
		os.WriteFile(full, []byte("three\n"), 0644)
	case verifStUntracked:
		os.WriteFile(full, []byte("new\n"), 0644)
	case verifStDeleted:
		os.Remove(full)
	case verifStAdded:
		os.WriteFile(full, []byte("new\n"), 0644)
		run("add", "--", path)
	}
}

// VerifC16_IsFileModified: the question the unlock guard asks Git
// (git.IsFileModified): for a file in any of seven states and under any of
// several spellings of its name - plain, in a directory, with a space, with a
// double quote, non-ASCII, or a symbolic name of letters, digits and blanks -
// the answer is "modified" whenever the file has uncommitted changes
// (edited, staged, staged and edited again, untracked, deleted, newly added)
// (what is answered for a committed, unchanged file is not constrained).
func VerifC16_IsFileModified() {
	verifMState = verifChoose("file.state", verifStates)
	switch verifChoose("name.kind", 6) {
	case 0:
		verifMPath = "file.dat"
	case 1:
		verifMPath = "art/deep/file.dat"
	case 2:
		verifMPath = "a b.dat"
	case 3:
		verifMPath = "say \"hi\".dat"
	case 4:
		verifMPath = "b\xc3\xa4r.dat"
	case 5:
		name := verifNondetString("file.name")
		verifAssume(len(name) >= 1 && len(name) <= 8)
		verifAssumeAlphabet(name, "az09  ")
		verifAssume(verifNot(strings.HasPrefix(name, " ")))
		verifAssume(verifNot(strings.HasSuffix(name, " ")))
		verifMPath = name + ".dat"
	}
	verifKnown("C16-F18-status-quotes-special-names", strings.ContainsAny(verifMPath, " \"\\"))
	var modified bool
	var err error
	if verifSymbolic() {
		verifOverride("github.com/git-lfs/git-lfs/v3/git.git", verifGitModelCmd)
		verifOverride("(*github.com/git-lfs/git-lfs/v3/subprocess.Cmd).StdoutPipe", func(c *subprocess.Cmd) (io.ReadCloser, error) {
			out, ok := verifGitAnswer(verifMArgs)
			verifAssert(ok, "the Git command asked is one the model of Git knows (status --porcelain, ls-files) and names the file")
			return &verifGitOut{s: out}, nil
		})
		verifOverride("(*github.com/git-lfs/git-lfs/v3/subprocess.Cmd).Start", func(c *subprocess.Cmd) error { return nil })
		verifOverride("(*github.com/git-lfs/git-lfs/v3/subprocess.Cmd).Wait", func(c *subprocess.Cmd) error { return nil })
		modified, err = IsFileModified(verifMPath)
	} else {
		dir := verifTempDir() + "/repo"
		os.MkdirAll(dir, 0755)
		verifRealRepo(dir, verifMPath, verifMState)
		wd, _ := os.Getwd()
		os.Chdir(dir)
		modified, err = IsFileModified(verifMPath)
		os.Chdir(wd)
	}
	verifAssert(err == nil, "asking Git succeeds")
	if verifMState == verifStClean {
		// (answering "modified" for a clean file would only make unlock stricter;
		// the property does not forbid it, so nothing is asserted here)
		verifCover("clean")
	} else {
		verifCover("uncommitted-changes")
		verifAssert(modified, "a file with uncommitted changes (working tree or index, untracked included) is reported as modified, however its name is spelled")
	}
}
