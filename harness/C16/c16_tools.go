package tools

// VerifC16_WriteFlag: SetFileWriteFlag makes a file writable for its owner or
// removes every write bit, and touches no other permission bit.
func VerifC16_WriteFlag() {
	path := verifTempDir() + "/lockable.bin"
	mode := verifNondetInt("mode")
	verifAssume(mode >= 0 && mode <= 0777)
	verifFSWrite(path, "content", mode)
	write := verifNondetBool("write.enabled")
	err := SetFileWriteFlag(path, write)
	after := verifFSMode(path)
	verifObserve("after", after)
	verifAssert(err == nil, "changing the write flag of an existing file succeeds")
	content, ok := verifFSRead(path)
	verifAssert(ok && content == "content", "the content is untouched")
	if write {
		verifCover("make-writable")
		verifAssert(after&0200 != 0, "the owner can write after the lock was taken")
		verifAssert(after&^0200 == mode&^0200, "no other permission bit changes")
	} else {
		verifCover("make-readonly")
		verifAssert(after&0222 == 0, "nobody can write a lockable file that is not locked")
		verifAssert(after|0222 == mode|0222, "no other permission bit changes")
	}
	verifAssert(SetFileWriteFlag(verifTempDir()+"/missing", write) != nil, "a missing file is reported")
}
