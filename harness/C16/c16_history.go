package locking

import (
	"io"
	"strconv"

	"github.com/git-lfs/git-lfs/v3/config"
	"github.com/git-lfs/git-lfs/v3/git"
)

// ---- a lock server: the locks it has granted and not released, two users

type verifSrvLock struct {
	id, path string
	ours     bool
}

type verifLockServer struct {
	locks    []verifSrvLock
	nextID   int
	pageSize int
	calls    []string
}

func (s *verifLockServer) find(path string) int {
	for k, l := range s.locks {
		if l.path == path {
			return k
		}
	}
	return -1
}

func (s *verifLockServer) Lock(remote string, req *lockRequest) (*lockResponse, int, error) {
	s.calls = append(s.calls, "lock "+req.Path)
	if k := s.find(req.Path); k >= 0 {
		return &lockResponse{Message: "already locked", Lock: &Lock{Id: s.locks[k].id, Path: req.Path}}, 409, nil
	}
	s.nextID++
	l := verifSrvLock{id: "id-" + strconv.Itoa(s.nextID), path: req.Path, ours: true}
	s.locks = append(s.locks, l)
	return &lockResponse{Lock: &Lock{Id: l.id, Path: l.path, Owner: &User{Name: "us"}}}, 201, nil
}

func (s *verifLockServer) Unlock(ref *git.Ref, remote, id string, force bool) (*unlockResponse, int, error) {
	s.calls = append(s.calls, "unlock "+id)
	for k, l := range s.locks {
		if l.id == id {
			if !l.ours && !force {
				return &unlockResponse{Message: "lock belongs to another user"}, 403, nil
			}
			s.locks = append(s.locks[:k:k], s.locks[k+1:]...)
			return &unlockResponse{Lock: &Lock{Id: l.id, Path: l.path}}, 200, nil
		}
	}
	return &unlockResponse{Message: "no such lock"}, 404, nil
}

func (s *verifLockServer) Search(remote string, req *lockSearchRequest) (*lockList, int, error) {
	var out []Lock
	for _, l := range s.locks {
		out = append(out, Lock{Id: l.id, Path: l.path})
	}
	return &lockList{Locks: out}, 200, nil
}

// SearchVerifiable answers page by page (pageSize locks per page, ours and
// theirs mixed in server order), with a cursor while more follow.
func (s *verifLockServer) SearchVerifiable(remote string, req *lockVerifiableRequest) (*lockVerifiableList, int, error) {
	s.calls = append(s.calls, "verify "+req.Cursor)
	start := 0
	if req.Cursor != "" {
		start, _ = strconv.Atoi(req.Cursor)
	}
	list := &lockVerifiableList{}
	end := start + s.pageSize
	if end > len(s.locks) {
		end = len(s.locks)
	}
	for _, l := range s.locks[start:end] {
		lk := Lock{Id: l.id, Path: l.path}
		if l.ours {
			list.Ours = append(list.Ours, lk)
		} else {
			list.Theirs = append(list.Theirs, lk)
		}
	}
	if end < len(s.locks) {
		list.NextCursor = strconv.Itoa(end)
	}
	return list, 200, nil
}

// VerifC16_LockHistory: after any short history of lock, unlock (own and
// forced), lock-listing with verification, and locks taken or released on the
// server behind the client's back, followed by `locks --verify`, the cached
// list of own locks equals the locks the server holds for this user - however
// the server splits its answer into pages - and a file is writable after it
// was locked and (when lockable files are kept read-only) read-only after it
// was unlocked.
func VerifC16_LockHistory() {
	root := verifTempDir()
	// the JSON copy of the answer kept for `git lfs locks --cached` is not the
	// subject here (encoding/json's reflection is not encoded)
	verifOverride("(*github.com/git-lfs/git-lfs/v3/locking.Client).EncodeLocksVerifiable", func(c *Client, ours, theirs []Lock, w io.Writer) error { return nil })
	srv := &verifLockServer{pageSize: 1 + verifChoose("page.size", 2)}
	cache, err := NewLockCache("")
	verifAssert(err == nil, "an in-memory cache can be created")
	c := &Client{Remote: "origin", RemoteRef: &git.Ref{Name: "main", Type: git.RefTypeLocalBranch}, client: srv, cache: cache,
		cacheDir: root + "/lfs/cache", LocalWorkingDir: root + "/work", SetLockableFilesReadOnly: true,
		cfg: &config.Configuration{Git: config.EnvironmentOf(config.MapFetcher(map[string][]string{})), Os: config.EnvironmentOf(config.MapFetcher(map[string][]string{}))}}
	c.lockablePatterns = []string{"*.dat"}
	paths := []string{"a.dat", "dir/b.dat", "c.dat"}
	for _, p := range paths {
		verifFSWrite(root+"/work/"+p, "content", 0444)
	}
	verifFSWrite(root+"/lfs/cache/.keep", "", 0644)
	steps := verifBound("steps", 3, 4)
	for s := 0; s < steps; s++ {
		p := paths[verifChoose("path", len(paths))]
		switch verifChoose("operation", 5) {
		case 0: // git lfs lock p
			lk, err := c.LockFile(p)
			if err == nil {
				verifCover("locked")
				verifAssert(lk.Path == p, "the granted lock is for the requested path")
				verifAssert(verifFSMode(root+"/work/"+p)&0200 != 0, "a file is writable once its lock is held")
			}
		case 1: // git lfs unlock --id (own lock), or --force on theirs
			if k := srv.find(p); k >= 0 {
				force := verifChoose("force", 2) == 1
				own := srv.locks[k].ours
				err := c.UnlockFileById(srv.locks[k].id, force)
				if err == nil {
					verifCover("unlocked")
					verifAssert(own || force, "another user's lock is only released with --force")
					verifAssert(srv.find(p) < 0, "the server released the lock")
				}
			}
		case 2: // the other user locks p (if free)
			if srv.find(p) < 0 {
				srv.nextID++
				srv.locks = append(srv.locks, verifSrvLock{id: "id-" + strconv.Itoa(srv.nextID), path: p, ours: false})
			}
		case 3: // an administrator releases whatever lock is on p
			if k := srv.find(p); k >= 0 {
				srv.locks = append(srv.locks[:k:k], srv.locks[k+1:]...)
			}
		case 4: // git lfs locks --verify in between
			c.SearchLocksVerifiable(0, false)
		}
	}
	// git lfs locks --verify
	ours, theirs, err := c.SearchLocksVerifiable(0, false)
	verifAssert(err == nil, "verification against a healthy server succeeds")
	nOurs, nTheirs := 0, 0
	for _, l := range srv.locks {
		if l.ours {
			nOurs++
		} else {
			nTheirs++
		}
	}
	verifCover("verified")
	verifAssert(len(ours) == nOurs && len(theirs) == nTheirs, "every page of the server's answer is read")
	cached := cache.Locks()
	verifKnown("C16-F8-verify-caches-their-locks", nTheirs > 0)
	for _, l := range srv.locks {
		if !l.ours {
			continue
		}
		found := false
		for _, cl := range cached {
			if cl.Path == l.path && cl.Id == l.id {
				found = true
			}
		}
		verifAssert(found, "every lock the server holds for this user is in the local cache after verification")
	}
	for _, cl := range cached {
		k := srv.find(cl.Path)
		verifAssert(k >= 0 && srv.locks[k].id == cl.Id, "every cached lock is one the server still holds")
		verifAssert(k < 0 || srv.locks[k].ours, "the cached list of own locks contains only own locks")
	}
}
