package git

// VerifIsFileModified is set by the harness of the commands package.
var VerifIsFileModified func(path string) (bool, error)

func verifIsFileModifiedStub(path string) (bool, error) { return VerifIsFileModified(path) }
