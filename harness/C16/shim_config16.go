package config

func verifPushRemoteStub16(c *Configuration) string { return "origin" }
