package config

import "github.com/git-lfs/git-lfs/v3/git"

func verifPushRemoteStub16(c *Configuration) string { return "origin" }

func verifCurrentRefStub16c(c *Configuration) *git.Ref {
	return &git.Ref{Name: "main", Type: git.RefTypeLocalBranch, Sha: "1111111111111111111111111111111111111111"}
}
