package tq

import (
	"time"

	"github.com/git-lfs/git-lfs/v3/errors"
)

// VerifC15_ReadyTime: the back-off between retries never exceeds the configured
// maximum and is never in the past, for every retry count (incl. shift overflow).
func VerifC15_ReadyTime() {
	count := verifNondetInt("count")
	maxDelay := verifNondetInt("maxretrydelay")
	verifAssume(count >= 0 && count <= verifBound("count.max", 200, 100000))
	verifAssume(maxDelay >= 0 && maxDelay <= 86400)
	rc := newRetryCounter()
	rc.MaxRetryDelay = maxDelay
	rc.count["oid"] = count
	before := verifNow()
	ready := rc.ReadyTime("oid")
	after := verifNow()
	if count < 1 {
		verifCover("first-attempt")
		verifAssert(ready.IsZero(), "no wait before the first retry")
		return
	}
	verifCover("backoff")
	verifAssert(!ready.Before(before), "the ready time is not in the past")
	wait := ready.Sub(after)
	verifObserve("count", count)
	verifAssert(wait <= time.Duration(maxDelay)*time.Second, "the wait never exceeds lfs.transfer.maxretrydelay")
	if count <= 8 {
		// below the cap the wait is the documented exponential 250ms * 2^(count-1)
		exp := time.Duration(250*(1<<uint(count-1))) * time.Millisecond
		if exp <= time.Duration(maxDelay)*time.Second {
			verifCover("exponential")
			verifAssert(ready.Sub(before) >= exp, "the wait is at least the exponential back-off")
		}
	}
}

// VerifC15_RetryBudget: an object is retried only while its counter is below
// MaxRetries, every retry consumes exactly one unit, and a non-retriable error
// is never retried.
func VerifC15_RetryBudget() {
	maxRetries := verifNondetInt("maxretries")
	count := verifNondetInt("count")
	verifAssume(maxRetries >= 0 && maxRetries <= 64)
	verifAssume(count >= 0 && count <= 100)
	q := &TransferQueue{rc: newRetryCounter()}
	q.rc.MaxRetries = maxRetries
	q.rc.count["oid"] = count
	var err error
	kind := verifChoose("error.kind", 4)
	switch kind {
	case 0:
		err = errors.New("fatal")
	case 1:
		err = errors.NewRetriableError(errors.New("retriable"))
	case 2:
		err = errors.NewFatalError(errors.New("fatal"))
	case 3:
		err = nil
	}
	can := q.canRetryObject("oid", err)
	if kind != 1 {
		verifCover("not-retriable")
		verifAssert(!can, "a failure that is not retriable is never retried")
	}
	if count >= maxRetries {
		verifCover("budget-exhausted")
		verifAssert(!can, "no retry once the retry budget is used up")
	}
	if kind == 1 && count < maxRetries {
		verifCover("retry")
		if can {
			verifCover("retried-within-budget")
		}
	}
	_, later := q.canRetryObjectLater("oid", errors.NewRetriableLaterError(errors.New("429"), "1"))
	if count >= maxRetries {
		verifAssert(!later, "a deferred (Retry-After) retry also respects the budget")
	}
	n := q.rc.Increment("oid")
	verifAssert(n == count+1 && q.rc.CountFor("oid") == count+1, "each retry consumes exactly one unit of the budget")
	verifAssert(q.rc.CountFor("other") == 0, "budgets are per object")
}

// VerifC15_RetryAfterSeconds: a Retry-After header in seconds yields a ready
// time at least that far in the future.
func VerifC15_RetryAfterSeconds() {
	header := verifNondetString("retry-after")
	verifAssume(len(header) >= 1 && len(header) <= 18)
	verifAssumeAlphabet(header, "09")
	before := verifNow()
	err := errors.NewRetriableLaterError(errors.New("429"), header)
	verifAssert(err != nil, "a decimal Retry-After value is understood")
	ready, ok := errors.IsRetriableLaterError(err)
	verifAssert(ok, "the error is classified retry-later")
	secs := verifAtoi64(header)
	verifKnown("C15-F9-retry-after-overflow", secs > 9223372036)
	verifAssert(!ready.Before(before), "a deferred attempt is never scheduled in the past")
	if secs <= 9223372036 {
		verifCover("representable")
		verifAssert(ready.Sub(before) >= time.Duration(secs)*time.Second, "the attempt is not repeated before the indicated time")
	} else {
		verifCover("huge")
	}
}

func verifAtoi64(s string) int64 {
	var n int64
	if verifSymbolic() {
		return verifDecimalValue(s)
	}
	for i := 0; i < len(s); i++ {
		n = n*10 + int64(s[i]-'0')
	}
	return n
}

// VerifC15_RetryAfterDate: an HTTP-date Retry-After is taken as the ready time.
func VerifC15_RetryAfterDate() {
	err := errors.NewRetriableLaterError(errors.New("429"), "Fri, 31 Dec 1999 23:59:59 GMT")
	verifAssert(err != nil, "an HTTP-date Retry-After value is understood")
	verifCover("date")
	_, ok := errors.IsRetriableLaterError(err)
	verifAssert(ok, "the error is classified retry-later")
	verifAssert(errors.NewRetriableLaterError(errors.New("429"), "") == nil, "no header, no deferred retry")
}

// VerifC15_ConcatReady: an object whose ready time lies in the future is never
// put into the batch that is sent now, and nothing is lost or duplicated.
func VerifC15_ConcatReady() {
	n := 1 + verifChoose("objects", 3)
	size := 1 + verifChoose("batchsize", 3)
	now := verifNow()
	var b batch
	future := 0
	for k := 0; k < n; k++ {
		off := verifNondetInt64("ready.offset")
		verifAssume(off >= -3600000000000 && off <= 3600000000000)
		ot := &objectTuple{Oid: string(rune('a' + k)), Size: int64(k)}
		if verifNondetBool("has.ready") {
			ot.ReadyTime = now.Add(time.Duration(off))
		}
		b = append(b, ot)
	}
	left, right, minWait := batch(nil).Concat(b, size)
	end := verifNow()
	verifAssert(len(left)+len(right) == n, "every object is in exactly one of the two batches")
	verifAssert(len(left) <= size, "the batch to send respects the batch size")
	for _, ot := range left {
		verifAssert(!ot.ReadyTime.After(end), "an object deferred to a later time is not sent before that time")
	}
	for _, ot := range right {
		if ot.ReadyTime.After(end) {
			future++
		}
	}
	if future > 0 {
		verifCover("deferred")
	}
	_ = minWait
	seen := map[string]bool{}
	for _, ot := range append(append(batch{}, left...), right...) {
		verifAssert(!seen[ot.Oid], "no object appears twice")
		seen[ot.Oid] = true
	}
}

// VerifC15_ActionExpiry: an action whose advertised expiry has passed (or will
// pass within 5 s) is never returned for use.
func VerifC15_ActionExpiry() {
	created := verifNow()
	a := &Action{Href: "https://example.com/o", createdAt: created}
	switch verifChoose("expiry.kind", 3) {
	case 0: // none
	case 1: // expires_in
		in := verifNondetInt("expires_in")
		verifAssume(in >= -86400 && in <= 86400 && in != 0)
		a.ExpiresIn = in
	case 2: // expires_at
		off := verifNondetInt64("expires_at.offset")
		verifAssume(off >= -86400000000000 && off <= 86400000000000)
		a.ExpiresAt = created.Add(time.Duration(off))
	}
	as := ActionSet{"download": a}
	t0 := verifNow()
	got, err := as.Get("download")
	missing, merr := as.Get("upload")
	verifAssert(missing == nil && merr == nil, "an action that was not offered is not invented")
	if got != nil {
		verifCover("usable")
		verifAssert(err == nil, "a usable action comes without error")
		if a.ExpiresIn != 0 {
			verifAssert(!created.Add(time.Duration(a.ExpiresIn)*time.Second).Before(t0.Add(5*time.Second)), "an action expiring (expires_in) within 5 s of the check is never used")
		} else if !a.ExpiresAt.IsZero() {
			verifAssert(!a.ExpiresAt.Before(t0.Add(5*time.Second)), "an action expiring (expires_at) within 5 s of the check is never used")
		}
	} else {
		verifCover("expired")
		verifAssert(err != nil && errors.IsRetriableError(err), "an expired action is re-requested (retriable error)")
		verifAssert(a.ExpiresIn != 0 || !a.ExpiresAt.IsZero(), "an action without expiry is always usable")
	}
}
