package tq

import (
	"time"
)

// a transfer failure that tells the client when to come back (what a 429 with
// Retry-After becomes)
type verifLaterErr struct{ at time.Time }

func (e verifLaterErr) Error() string                          { return "429: retry later" }
func (e verifLaterErr) RetriableLaterError() (time.Time, bool) { return e.at, true }

var (
	verifSpDelay   map[string]time.Duration // Retry-After of the first attempt, per object
	verifSpReady   map[string]time.Time     // the instant the server named
	verifSpRetried map[string]time.Time     // when the object was attempted again
)

type verifSpAdapter struct{}

func (a *verifSpAdapter) Name() string                                       { return "basic" }
func (a *verifSpAdapter) Direction() Direction                               { return Download }
func (a *verifSpAdapter) Begin(cfg AdapterConfig, cb ProgressCallback) error { return nil }
func (a *verifSpAdapter) End()                                               {}

func (a *verifSpAdapter) Add(ts ...*Transfer) <-chan TransferResult {
	results := make(chan TransferResult, len(ts))
	for _, t := range ts {
		verifQAttempts[t.Oid]++
		var err error
		if d, ok := verifSpDelay[t.Oid]; ok && verifQAttempts[t.Oid] == 1 {
			at := verifQNow().Add(d)
			verifSpReady[t.Oid] = at
			err = verifLaterErr{at: at}
		} else if _, again := verifSpReady[t.Oid]; again && verifQAttempts[t.Oid] == 2 {
			verifSpRetried[t.Oid] = verifQNow()
		}
		results <- TransferResult{Transfer: t, Error: err}
	}
	close(results)
	return results
}

// VerifC15_QueueSpacing: the whole queue (collectBatches and its waiting
// between rounds included) against an adapter that answers the first attempt
// of one, two or three objects with "retry later" and a Retry-After of their
// own: no object is attempted again before the instant the server named for
// it - also when another object's wait ends earlier -, and Wait returns.
func VerifC15_QueueSpacing() {
	verifSchedPolicy(verifChoose("schedule.policy", 3))
	verifOverride("time.Now", verifQNow)
	verifOverride("time.Sleep", verifQSleep)
	verifOverride("time.Until", verifQUntil)
	verifQNowNs = 0
	verifQStep = 1000000 // 1 ms between clock readings
	verifQRound = 0
	verifQAttempts = map[string]int{}
	verifQBatches = nil
	verifQFaultOid, verifQFaultKind, verifQCallFault = "", verifQNoFault, 0
	verifSpDelay = map[string]time.Duration{}
	verifSpReady = map[string]time.Time{}
	verifSpRetried = map[string]time.Time{}
	oids := []string{"oid-a", "oid-b", "oid-c"}[:2+verifChoose("third.object", 2)]
	delays := []time.Duration{0, time.Second, 3 * time.Second, 10 * time.Second}
	for _, o := range oids {
		if d := delays[verifChoose("retry.after."+o, len(delays))]; d > 0 {
			verifSpDelay[o] = d
		}
	}
	m := &concreteManifest{
		maxRetries:           2,
		concurrentTransfers:  1,
		batchClientAdapter:   &verifQBatch{},
		downloadAdapterFuncs: map[string]NewAdapterFunc{"basic": func(name string, dir Direction) Adapter { return &verifSpAdapter{} }},
		uploadAdapterFuncs:   map[string]NewAdapterFunc{},
	}
	q := NewTransferQueue(Download, m, "origin", WithBatchSize(1+verifChoose("batch.size", 3)))
	watch := q.Watch()
	delivered := map[string]int{}
	watched := make(chan struct{})
	go func() {
		for t := range watch {
			delivered[t.Oid]++
		}
		close(watched)
	}()
	verifNoDeadlock("Add and Wait return")
	for _, o := range oids {
		q.Add("file-"+o, "/p/"+o, o, 5, false, nil)
	}
	q.Wait()
	<-watched
	verifCover("wait-returned")
	for _, o := range oids {
		if delivered[o] == 1 {
			verifCover("delivered")
		}
		if at, deferred := verifSpReady[o]; deferred {
			verifCover("deferred")
			if again, ok := verifSpRetried[o]; ok {
				verifCover("retried")
				verifAssert(!again.Before(at), "a deferred object is not attempted again before the instant its own Retry-After named")
			}
		}
	}
}
