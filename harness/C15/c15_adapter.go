package tq

import (
	"time"

	"github.com/git-lfs/git-lfs/v3/errors"
	"github.com/git-lfs/git-lfs/v3/fs"
)

// VerifC15_AdapterExpiry: the expiry of an action is checked when the action
// is used, not only when the batch answer arrives: a download whose action
// has expired (or expires within the next 5 seconds) by the time the adapter
// gets to it sends no request and fails with a retriable error, so that the
// object is re-requested.
func VerifC15_AdapterExpiry() {
	root := verifTempDir()
	a := &basicDownloadAdapter{&adapterBase{fs: fs.New(verifNoEnv{}, root+"/.git", root, root+"/lfs", 0644)}}
	expected := "The quick brown fox jumps over the lazy dog"
	oid := verifHashHex([]byte(expected))
	path := root + "/lfs/objects/final-object"
	verifFSWrite(root+"/lfs/objects/.keep", "", 0644)
	verifFSWrite(root+"/lfs/incomplete/.keep", "", 0644)
	act := &Action{Href: "https://example.com/object"}
	kind := verifChoose("expiry.kind", 4)
	now := time.Now()
	switch kind {
	case 1: // expired an hour ago (the object waited in the adapter's queue)
		act.ExpiresAt = now.Add(-time.Hour)
	case 2: // about to expire: within the 5 second safety margin
		act.ExpiresAt = now.Add(3 * time.Second)
	case 3: // expires_in given instead of expires_at, already used up
		act.ExpiresIn = 1
		act.createdAt = now.Add(-time.Minute)
	}
	viaLinks := verifChoose("via.links", 2) == 1
	t := &Transfer{Name: "file.bin", Oid: oid, Size: int64(len(expected)), Path: path}
	if viaLinks {
		t.Links = ActionSet{"download": act}
	} else {
		t.Actions = ActionSet{"download": act}
	}
	verifAnswers = []verifAnswer{{status: 200, body: expected, cutAfter: -1}}
	verifRequests = 0
	err := a.DoTransfer(nil, t, nil, nil)
	if kind == 0 {
		verifCover("no-expiry")
		verifAssert(err == nil && verifRequests == 1, "an action without expiry is used")
		return
	}
	verifCover("expired-action")
	verifAssert(verifRequests == 0, "an action whose advertised expiry has passed (or is within 5 s) is never used")
	verifAssert(err != nil && errors.IsRetriableError(err), "the object is re-requested instead (retriable error)")
	verifAssert(!verifFSExists(path), "and nothing is stored")
}
