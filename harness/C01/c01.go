package lfs

import (
	"io"
	"os"
	"strings"

	"github.com/git-lfs/git-lfs/v3/config"
	"github.com/git-lfs/git-lfs/v3/errors"
)

// verifTempFileStub replaces lfs.TempFile (which needs a configured
// repository): a fresh temporary file under the harness root.
func verifTempFileStub(cfg *config.Configuration, pattern string) (*os.File, error) {
	dir := verifTempDir() + "/lfs/tmp"
	verifFSWrite(dir+"/.keep", "", 0644)
	return os.CreateTemp(dir, pattern)
}

// verifChunks delivers the given chunks one Read at a time (a pipe): a Read
// returns at most one chunk (or the part of it that fits), io.EOF only after
// the last byte (optionally together with the last bytes).
type verifChunks struct {
	chunks      []string
	eofWithLast bool
}

func (r *verifChunks) Read(p []byte) (int, error) {
	for len(r.chunks) > 0 && len(r.chunks[0]) == 0 {
		r.chunks = r.chunks[1:]
	}
	if len(r.chunks) == 0 {
		return 0, io.EOF
	}
	if len(p) == 0 {
		return 0, nil
	}
	c := r.chunks[0]
	if len(c) <= len(p) {
		n := copy(p, c)
		r.chunks = r.chunks[1:]
		if len(r.chunks) == 0 && r.eofWithLast {
			return n, io.EOF
		}
		return n, nil
	}
	n := copy(p, c[:len(p)])
	r.chunks[0] = c[len(p):]
	return n, nil
}

// verifContentChunk: one chunk of input: pointer-like text (see
// verifPointerLikeInput) or arbitrary bytes of arbitrary length.
func verifContentChunk(tag string, maxLen int) string {
	switch verifChoose(tag+".kind", 3) {
	case 0:
		return verifPointerLikeInput(verifBound("lines", 2, 4), verifBound("line.len", 80, 120))
	case 1:
		// a well-formed pointer (any oid, any size), possibly with surrounding white space
		oid := verifNondetString(tag + ".oid")
		verifAssumeAlphabet(oid, "09af")
		verifAssume(len(oid) == 64)
		size := verifNondetString(tag + ".size")
		verifAssumeAlphabet(size, "09")
		verifAssume(len(size) >= 1 && len(size) <= 15)
		lead := verifNondetString(tag + ".lead")
		trail := verifNondetString(tag + ".trail")
		verifAssumeClass(lead, "asciiws")
		verifAssumeClass(trail, "asciiws")
		verifAssume(len(lead) <= 2 && len(trail) <= 2)
		return lead + "version https://git-lfs.github.com/spec/v1\noid sha256:" + oid + "\nsize " + size + trail
	}
	s := verifNondetString(tag + ".bytes")
	verifAssume(len(s) >= 1 && len(s) <= maxLen)
	verifAssumeClass(s, "trimmed")
	// arbitrary bytes here means bytes without the marker words the pointer
	// sniffer looks for (content with them is the pointer-like kind)
	verifAssume(verifNot(verifOr(strings.Contains(s, "git-lfs"), verifOr(strings.Contains(s, "git-media"), strings.Contains(s, "hawser")))))
	return s
}

// VerifC01_CopyToTemp: whatever way the input is chunked and whatever file
// size the caller found at the path, cleaning stores exactly the input and
// names it by its SHA-256 and length - unless the whole input is a pointer.
func VerifC01_CopyToTemp() {
	a := verifContentChunk("first", 5000)
	verifAssume(len(a) >= 1) // the empty input is VerifC01_Empty
	b := ""
	if verifChoose("more", 2) == 1 {
		b = verifNondetString("second.bytes")
		verifAssume(len(b) >= 1 && len(b) <= 1000000)
	}
	in := a + b
	fileSize := verifNondetInt64("filesize")
	verifAssume(fileSize >= -1 && fileSize <= 2000000)
	rd := &verifChunks{chunks: []string{a, b}, eofWithLast: verifNondetBool("eof.with.last")}
	// known findings (DESIGN.md section 8)
	verifKnown("C01-F1-short-first-read", len(a) < 1024 && len(b) > 0)
	verifKnown("C01-F2-filesize-not-beyond-first-1024", fileSize >= 0 && fileSize <= 1024 && len(in) > 1024)
	f := &GitFilter{}
	oid, size, tmp, err := f.copyToTemp(rd, fileSize, nil)
	if err != nil {
		verifAssert(errors.IsCleanPointerError(err), "cleaning fails only to say that the input already is a pointer")
		verifCover("already-a-pointer")
		by, _ := errors.GetContext(err, "bytes").([]byte)
		verifAssert(string(by) == in, "a pointer is handed back byte for byte")
		verifAssert(len(in) < 1024, "only inputs shorter than 1024 bytes are taken for pointers")
		p, derr := DecodePointer(strings.NewReader(in))
		verifAssert(derr == nil && p != nil, "only inputs that parse as pointers are taken for pointers")
		return
	}
	verifCover("stored")
	stored, ok := verifFSRead(tmp.Name())
	verifAssert(ok, "the content is in the temporary object file")
	verifObserve("size", size)
	verifAssert(stored == in, "exactly the input bytes are stored")
	verifAssert(size == int64(len(in)), "the recorded size is the length of the input")
	verifAssert(oid == verifHashHex([]byte(in)), "the recorded oid is the SHA-256 of the input")
}

// VerifC01_Empty: an empty file cleans to the empty pointer (size 0) whose
// encoding is the empty file.
func VerifC01_Empty() {
	rd := &verifChunks{chunks: nil, eofWithLast: verifNondetBool("eof.with.last")}
	fileSize := verifNondetInt64("filesize")
	verifAssume(fileSize >= -1 && fileSize <= 4096)
	f := &GitFilter{}
	_, _, _, err := f.copyToTemp(rd, fileSize, nil)
	verifCover("empty")
	verifAssert(err != nil && errors.IsCleanPointerError(err), "the empty input is reported as the (empty) pointer")
	by, _ := errors.GetContext(err, "bytes").([]byte)
	verifAssert(len(by) == 0, "nothing is written back for the empty input")
	p := errors.GetContext(err, "pointer").(*Pointer)
	verifAssert(p != nil && p.Size == 0 && p.Encoded() == "", "the empty pointer has size 0 and an empty encoding")
}
