package lfs

import (
	"io"
	"os"
	"strings"

	"github.com/git-lfs/git-lfs/v3/config"
	"github.com/git-lfs/git-lfs/v3/errors"
	"github.com/git-lfs/git-lfs/v3/tools"
)

// verifTempFileStub replaces lfs.TempFile (which needs a configured
// repository): a fresh temporary file under the harness root.
func verifTempFileStub(cfg *config.Configuration, pattern string) (*os.File, error) {
	dir := verifTempDir() + "/lfs/tmp"
	verifFSWrite(dir+"/.keep", "", 0644)
	return os.CreateTemp(dir, pattern)
}

// verifChunks delivers the given chunks one Read at a time (a pipe): a Read
// returns at most one chunk (or the part of it that fits), io.EOF only after
// the last byte (optionally together with the last bytes).
type verifChunks struct {
	chunks      []string
	eofWithLast bool
}

func (r *verifChunks) Read(p []byte) (int, error) {
	for len(r.chunks) > 0 && len(r.chunks[0]) == 0 {
		r.chunks = r.chunks[1:]
	}
	if len(r.chunks) == 0 {
		return 0, io.EOF
	}
	if len(p) == 0 {
		return 0, nil
	}
	c := r.chunks[0]
	if len(c) <= len(p) {
		n := copy(p, c)
		r.chunks = r.chunks[1:]
		if len(r.chunks) == 0 && r.eofWithLast {
			return n, io.EOF
		}
		return n, nil
	}
	n := copy(p, c[:len(p)])
	r.chunks[0] = c[len(p):]
	return n, nil
}

// verifDrain hands the engine everything that is left (used by its io.Copy
// summary: copying does not depend on chunking); unused natively.
func (r *verifChunks) verifDrain() string {
	rest := ""
	for _, c := range r.chunks {
		rest += c
	}
	r.chunks = nil
	return rest
}

// verifInput builds the input stream as head ++ t1 ++ t2:
//   head: pointer-like lines, a well-formed pointer, or printable bytes
//   t1:   ASCII letters (what the 1024-byte sniff may still see)
//   t2:   arbitrary bytes of any length (never inspected; present only when
//         head++t1 already fills the 1024-byte sniff window)
// and the way it is cut into pipe chunks (at the part boundaries).
func verifInput() (in string, chunks []string) {
	var head string
	hasT1 := verifChoose("has.t1", 2) == 1
	switch verifChoose("head.kind", verifBound("head.kinds", 2, 3)) {
	case 2:
		head = verifPointerLikeInputT(verifBound("lines", 3, 4), verifBound("line.len", 80, 120), !hasT1)
	case 0:
		oid := verifNondetString("head.oid")
		verifAssumeAlphabet(oid, "09af")
		verifAssume(len(oid) == 64)
		size := verifNondetString("head.size")
		verifAssumeAlphabet(size, "09")
		verifAssume(len(size) >= 1 && len(size) <= 15)
		// any amount of trailing white space (a pointer padded beyond the
		// 1024-byte cut-off is content, not a pointer)
		trail := verifNondetString("head.trail")
		if hasT1 {
			verifAssumeAlphabet(trail, "  \t\t") // blanks only when more content follows on the line
		} else {
			verifAssumeClass(trail, "asciiws")
		}
		if verifChoose("head.padding", 2) == 0 {
			verifAssume(len(trail) <= 3)
		} else {
			// padded beyond the sniff window: the 1024-byte cut falls inside the padding
			verifAssume(len(trail) <= 1100 && 54+len(oid)+6+len(size)+len(trail) >= 1024)
		}
		head = "version https://git-lfs.github.com/spec/v1\noid sha256:" + oid + "\nsize " + size + trail
	case 1:
		// nothing, or white space only
		head = verifNondetString("head.ws")
		verifAssumeClass(head, "asciiws")
		verifAssume(len(head) <= 3)
	}
	t1 := ""
	if hasT1 {
		t1 = verifNondetString("t1")
		verifAssume(len(t1) >= 1 && len(t1) <= 1100)
		verifAssumeAlphabet(t1, "AZaz")
		verifAssume(verifNot(verifOr(strings.Contains(t1, "git-lfs"), verifOr(strings.Contains(t1, "git-media"), strings.Contains(t1, "hawser")))))
	}
	t2 := ""
	if t1 != "" && verifChoose("has.t2", 2) == 1 {
		t2 = verifNondetString("t2")
		verifAssume(len(t2) >= 1 && len(t2) <= 4000000)
		verifAssume(len(head)+len(t1) >= 1024)
	}
	in = head + t1 + t2
	verifAssume(len(in) >= 1)
	if verifChoose("one.chunk", 2) == 1 {
		return in, []string{in}
	}
	return in, []string{head, t1, t2}
}

// VerifC01_CopyToTemp: whatever way the input is chunked and whatever file
// size the caller found at the path, cleaning stores exactly the input and
// names it by its SHA-256 and length - unless the whole input is a pointer.
func VerifC01_CopyToTemp() {
	in, chunks := verifInput()
	fileSize := verifNondetInt64("filesize")
	verifAssume(fileSize >= -1 && fileSize <= 5000000)
	rd := &verifChunks{chunks: chunks, eofWithLast: verifNondetBool("eof.with.last")}
	// findings fixed by commits 267f019 / 8f394e3 (regions kept so that a regression is named)
	verifKnown("C01-F1-short-first-read", len(chunks) > 1 && len(chunks[0]) < 1024 && len(in) > len(chunks[0]))
	verifKnown("C01-F2-filesize-not-beyond-first-1024", fileSize >= 0 && fileSize <= 1024 && len(in) > 1024)
	f := &GitFilter{}
	var cb tools.CopyCallback
	if verifChoose("with.progress.callback", 2) == 1 {
		verifAssume(len(in) <= 50000) // the callback path copies in 32 KiB reads
		cb = func(total, soFar int64, last int) error { return nil }
	}
	oid, size, tmp, err := f.copyToTemp(rd, fileSize, cb)
	if err != nil {
		verifAssert(errors.IsCleanPointerError(err), "cleaning fails only to say that the input already is a pointer")
		verifCover("already-a-pointer")
		by, _ := errors.GetContext(err, "bytes").([]byte)
		verifAssert(string(by) == in, "a pointer is handed back byte for byte")
		verifAssert(len(in) < 1024, "only inputs shorter than 1024 bytes are taken for pointers")
		p, derr := DecodePointer(strings.NewReader(in))
		verifAssert(derr == nil && p != nil, "only inputs that parse as pointers are taken for pointers")
		// independent of the decoder: every non-empty pointer names its oid
		verifAssert(strings.Contains(in, "oid sha256:"), "content without an oid line is never taken for a pointer")
		return
	}
	verifCover("stored")
	stored, ok := verifFSRead(tmp.Name())
	verifAssert(ok, "the content is in the temporary object file")
	verifObserve("size", size)
	verifAssert(stored == in, "exactly the input bytes are stored")
	verifAssert(size == int64(len(in)), "the recorded size is the length of the input")
	verifAssert(oid == verifHashHex([]byte(in)), "the recorded oid is the SHA-256 of the input")
}

// VerifC01_Empty: an empty file cleans to the empty pointer (size 0) whose
// encoding is the empty file.
func VerifC01_Empty() {
	rd := &verifChunks{chunks: nil, eofWithLast: verifNondetBool("eof.with.last")}
	fileSize := verifNondetInt64("filesize")
	verifAssume(fileSize >= -1 && fileSize <= 4096)
	f := &GitFilter{}
	_, _, _, err := f.copyToTemp(rd, fileSize, nil)
	verifCover("empty")
	verifAssert(err != nil && errors.IsCleanPointerError(err), "the empty input is reported as the (empty) pointer")
	by, _ := errors.GetContext(err, "bytes").([]byte)
	verifAssert(len(by) == 0, "nothing is written back for the empty input")
	p := errors.GetContext(err, "pointer").(*Pointer)
	verifAssert(p != nil && p.Size == 0 && p.Encoded() == "", "the empty pointer has size 0 and an empty encoding")
}
