package commands

import (
	"bytes"
	"strconv"
	"strings"

	"github.com/git-lfs/git-lfs/v3/config"
	"github.com/git-lfs/git-lfs/v3/fs"
	"github.com/git-lfs/git-lfs/v3/lfs"
)

func verifQuiet(format string, args ...interface{}) {}

// VerifC01_CleanThenSmudge: the clean command stores exactly the input under
// the id it prints, prints the canonical pointer for (sha256, length), leaves
// nothing in the temporary area, and smudging the printed pointer returns the
// input; a well-formed pointer passes through clean untouched and nothing is stored.
func VerifC01_CleanThenSmudge() {
	root := verifTempDir()
	config.VerifFS = &fs.Filesystem{LFSStorageDir: root + "/lfs"}
	lfs.VerifTmpDir = root + "/lfs/tmp"
	verifFSWrite(root+"/lfs/objects/.keep", "", 0644)
	verifOverride("github.com/git-lfs/git-lfs/v3/commands.Print", verifQuiet)
	verifOverride("github.com/git-lfs/git-lfs/v3/commands.Error", verifQuiet)
	gf := lfs.NewGitFilter(&config.Configuration{})
	var in string
	isPointer := verifChoose("input.kind", 2) == 1
	if isPointer {
		oid := verifNondetString("oid")
		verifAssumeAlphabet(oid, "09af")
		verifAssume(len(oid) == 64)
		size := verifNondetString("size")
		verifAssumeAlphabet(size, "09")
		verifAssume(len(size) >= 1 && len(size) <= 15)
		trail := []string{"", "\n", "\r\n", "\n\n"}[verifChoose("trail", 4)]
		in = "version https://git-lfs.github.com/spec/v1\noid sha256:" + oid + "\nsize " + size + trail
	} else {
		in = verifNondetString("content")
		verifAssume(len(in) >= 1 && len(in) <= verifBound("content.len", 5000, 200000))
		verifAssumeClass(in, "trimmed")
		verifAssume(verifNot(verifOr(strings.Contains(in, "git-lfs"), verifOr(strings.Contains(in, "git-media"), strings.Contains(in, "hawser")))))
	}
	var out bytes.Buffer
	ptr, err := clean(gf, &out, strings.NewReader(in), "", -1)
	verifAssert(err == nil, "cleaning succeeds")
	if isPointer {
		verifCover("pointer-passthrough")
		verifAssert(ptr == nil && out.String() == in, "a well-formed pointer is written back unchanged")
		verifAssert(verifFSCount(root+"/lfs/objects/") == 1, "nothing is added to local storage for a pointer")
		return
	}
	verifCover("content-stored")
	oid := verifHashHex([]byte(in))
	verifAssert(ptr != nil && ptr.Oid == oid && ptr.Size == int64(len(in)), "the pointer names the SHA-256 and length of the input")
	verifAssert(out.String() == ptr.Encoded() && ptr.Encoded() == "version https://git-lfs.github.com/spec/v1\noid sha256:"+oid+"\nsize "+strconv.Itoa(len(in))+"\n", "the canonical pointer is printed")
	stored, ok := verifFSRead(config.VerifFS.ObjectPathname(oid))
	verifAssert(ok && stored == in, "local storage holds exactly the input under that id")
	verifAssert(verifFSCount(root+"/lfs/tmp/") == 0, "no temporary file is left behind")
	p2, derr := lfs.DecodePointer(bytes.NewReader(out.Bytes()))
	verifAssert(derr == nil && p2 != nil, "the printed pointer parses")
	var back bytes.Buffer
	n, serr := gf.Smudge(&back, p2, "file.bin", false, nil, nil)
	verifAssert(serr == nil, "smudging the printed pointer succeeds")
	verifObserve("smudged.bytes", n)
	verifAssert(back.String() == in && n == int64(len(in)), "smudge returns the original bytes")
}

