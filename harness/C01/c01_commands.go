package commands

import (
	"bytes"
	"strconv"
	"strings"

	"github.com/git-lfs/git-lfs/v3/config"
	"github.com/git-lfs/git-lfs/v3/fs"
	"github.com/git-lfs/git-lfs/v3/lfs"
)

func verifQuiet(format string, args ...interface{}) {}

// VerifC01_CleanThenSmudge: the clean command stores exactly the input under
// the id it prints, prints the canonical pointer for (sha256, length), leaves
// nothing in the temporary area, and smudging the printed pointer returns the
// input; a well-formed pointer passes through clean untouched and nothing is stored.
func VerifC01_CleanThenSmudge() {
	root := verifTempDir()
	config.VerifFS = &fs.Filesystem{LFSStorageDir: root + "/lfs"}
	lfs.VerifTmpDir = root + "/lfs/tmp"
	verifFSWrite(root+"/lfs/objects/.keep", "", 0644)
	verifOverride("github.com/git-lfs/git-lfs/v3/commands.Print", verifQuiet)
	verifOverride("github.com/git-lfs/git-lfs/v3/commands.Error", verifQuiet)
	gf := lfs.NewGitFilter(&config.Configuration{})
	var in string
	isPointer := verifChoose("input.kind", 2) == 1
	if isPointer {
		oid := verifNondetString("oid")
		verifAssumeAlphabet(oid, "09af")
		verifAssume(len(oid) == 64)
		size := verifNondetString("size")
		verifAssumeAlphabet(size, "09")
		verifAssume(len(size) >= 1 && len(size) <= 15)
		trail := []string{"", "\n", "\r\n", "\n\n"}[verifChoose("trail", 4)]
		in = "version https://git-lfs.github.com/spec/v1\noid sha256:" + oid + "\nsize " + size + trail
	} else {
		// content = t1 (ASCII letters: what the 1024-byte sniff sees) ++ t2 (any bytes,
		// any length; present only when t1 fills the sniff window)
		t1 := verifNondetString("content.head")
		verifAssume(len(t1) >= 1 && len(t1) <= 1100)
		verifAssumeAlphabet(t1, "AZaz")
		verifAssume(verifNot(verifOr(strings.Contains(t1, "git-lfs"), verifOr(strings.Contains(t1, "git-media"), strings.Contains(t1, "hawser")))))
		t2 := ""
		if verifChoose("has.tail", 2) == 1 {
			t2 = verifNondetString("content.tail")
			verifAssume(len(t2) >= 1 && len(t2) <= verifBound("content.len", 4000000, 4000000))
			verifAssume(len(t1) >= 1024)
		}
		in = t1 + t2
	}
	var out bytes.Buffer
	ptr, err := clean(gf, &out, strings.NewReader(in), "", -1)
	verifAssert(err == nil, "cleaning succeeds")
	if isPointer {
		verifCover("pointer-passthrough")
		verifAssert(ptr == nil && out.String() == in, "a well-formed pointer is written back unchanged")
		verifAssert(verifFSCount(root+"/lfs/objects/") == 1, "nothing is added to local storage for a pointer")
		return
	}
	verifCover("content-stored")
	oid := verifHashHex([]byte(in))
	verifAssert(ptr != nil && ptr.Oid == oid && ptr.Size == int64(len(in)), "the pointer names the SHA-256 and length of the input")
	verifAssert(out.String() == ptr.Encoded() && ptr.Encoded() == "version https://git-lfs.github.com/spec/v1\noid sha256:"+oid+"\nsize "+strconv.Itoa(len(in))+"\n", "the canonical pointer is printed")
	stored, ok := verifFSRead(config.VerifFS.ObjectPathname(oid))
	verifAssert(ok && stored == in, "local storage holds exactly the input under that id")
	verifAssert(verifFSCount(root+"/lfs/tmp/") == 0, "no temporary file is left behind")
	p2, derr := lfs.DecodePointer(bytes.NewReader(out.Bytes()))
	verifAssert(derr == nil && p2 != nil, "the printed pointer parses")
	var back bytes.Buffer
	n, serr := gf.Smudge(&back, p2, "file.bin", false, nil, nil)
	verifAssert(serr == nil, "smudging the printed pointer succeeds")
	verifObserve("smudged.bytes", n)
	verifAssert(back.String() == in && n == int64(len(in)), "smudge returns the original bytes")
}

