package lfs

import (
	"io"

	"github.com/git-lfs/git-lfs/v3/config"
)

// VerifPipeExt stands for the configured extension programs: given the
// action, the input bytes and the extension names in pipeline order it returns
// the output bytes and the SHA-256 of the input and of every stage's output.
var VerifPipeExt func(action string, in string, names []string) (out string, oids []string)

// verifPipeExtensionsStub replaces pipeExtensions (process plumbing around
// the extension programs): same contract - the pipeline output in a temporary
// file, one result per extension with the ids of what went in and came out.
func verifPipeExtensionsStub(cfg *config.Configuration, request *pipeRequest) (response pipeResponse, err error) {
	data, rerr := io.ReadAll(request.reader)
	if rerr != nil {
		return response, rerr
	}
	var names []string
	for _, e := range request.extensions {
		names = append(names, e.Name)
	}
	out, oids := VerifPipeExt(request.action, string(data), names)
	f, terr := TempFile(cfg, "")
	if terr != nil {
		return response, terr
	}
	defer f.Close()
	if _, werr := io.WriteString(f, out); werr != nil {
		return response, werr
	}
	response.file = f
	for k, n := range names {
		response.results = append(response.results, &pipeExtResult{name: n, oidIn: oids[k], oidOut: oids[k+1]})
	}
	return response, nil
}
