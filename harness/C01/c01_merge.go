package commands

import (
	"os"
	"os/exec"
	"strconv"
	"strings"

	"github.com/git-lfs/git-lfs/v3/config"
	"github.com/git-lfs/git-lfs/v3/fs"
	"github.com/git-lfs/git-lfs/v3/lfs"
	"github.com/git-lfs/git-lfs/v3/subprocess"
	"github.com/git-lfs/git-lfs/v3/tq"
)

// the merge program of the harness: it sees the three smudged versions and
// writes its result to %D
var (
	verifMergeSpec   map[string]string
	verifMergeSeen   map[string]string
	verifMergeResult string
	verifMergeStatus int // 0 merged, 1 conflicts, 2 could not be started
)

func verifMergeExec1(name string, args ...string) (*subprocess.Cmd, error) {
	return &subprocess.Cmd{}, nil
}

func verifMergeRun1(c *subprocess.Cmd) error {
	if verifMergeStatus == 2 {
		return os.ErrNotExist
	}
	verifMergeSeen = map[string]string{}
	for _, tag := range []string{"O", "A", "B"} {
		b, err := os.ReadFile(verifMergeSpec[tag])
		if err != nil {
			verifMergeSeen[tag] = "<unreadable>"
		} else {
			verifMergeSeen[tag] = string(b)
		}
	}
	os.WriteFile(verifMergeSpec["D"], []byte(verifMergeResult), 0600)
	if verifMergeStatus == 1 {
		return &exec.ExitError{}
	}
	return nil
}

func verifNoManifest1(operation, remote string) tq.Manifest { return nil }

func verifMergeText(name string, min, max int) string {
	s := verifNondetString(name)
	verifAssume(len(s) >= min && len(s) <= max)
	verifAssumeAlphabet(s, "AZaz")
	verifAssume(verifNot(verifOr(strings.Contains(s, "git-lfs"), verifOr(strings.Contains(s, "git-media"), strings.Contains(s, "hawser")))))
	return s
}

// VerifC01_MergeDriver: `git lfs merge-driver` (mergeProcessInput x 4,
// processFiles) with the merge program replaced by a scripted one: the
// program is handed the smudged contents of the three versions (the object's
// bytes for a pointer whose object is local, the file's own bytes for a file
// that is not a pointer); whatever it writes is cleaned into the output file,
// which afterwards holds exactly the canonical pointer of the merged bytes
// (nothing for an empty result) - whatever the output file (Git passes the
// current version's file) held before, shorter or longer - the merged bytes
// are in local storage under that id.
func VerifC01_MergeDriver() {
	root := verifTempDir()
	config.VerifFS = &fs.Filesystem{LFSStorageDir: root + "/lfs"}
	config.VerifTmp = root + "/lfs/tmp"
	lfs.VerifTmpDir = root + "/lfs/tmp"
	verifFSWrite(root+"/lfs/objects/.keep", "", 0644)
	verifFSWrite(root+"/lfs/tmp/.keep", "", 0644)
	verifOverride("github.com/git-lfs/git-lfs/v3/commands.Print", verifQuiet)
	verifOverride("github.com/git-lfs/git-lfs/v3/commands.Error", verifQuiet)
	verifOverride("github.com/git-lfs/git-lfs/v3/subprocess.ExecCommand", verifMergeExec1)
	verifOverride("github.com/git-lfs/git-lfs/v3/commands.Exit", func(format string, args ...interface{}) { panic("Exit: " + format) })
	verifOverride("(*github.com/git-lfs/git-lfs/v3/subprocess.Cmd).Run", verifMergeRun1)
	cfg = &config.Configuration{
		Git: config.EnvironmentOf(config.MapFetcher(map[string][]string{})),
		Os:  config.EnvironmentOf(config.MapFetcher(map[string][]string{})),
	}
	gf := lfs.NewGitFilter(cfg)

	// the three versions Git hands over as files
	want := map[string]string{}
	files := map[string]string{}
	known := []string{}
	for _, tag := range []string{"O", "A", "B"} {
		path := root + "/work/.merge_file_" + tag
		max := 40
		if tag == "A" {
			max = 300
		}
		content := verifMergeText("version."+tag, 1, max)
		for _, other := range known {
			verifAssume(verifOr(content == other, verifHashHex([]byte(content)) != verifHashHex([]byte(other)))) // no SHA-256 collisions
		}
		known = append(known, content)
		want[tag] = content
		files[tag] = path
		if tag == "A" && verifChoose("current.is.lfs", 2) == 0 {
			// the current side is not (yet) an LFS file
			verifFSWrite(path, content, 0644)
			continue
		}
		oid := verifHashHex([]byte(content))
		verifFSWrite(config.VerifFS.ObjectPathname(oid), content, 0444)
		verifFSWrite(path, lfs.NewPointer(oid, int64(len(content)), nil).Encoded(), 0644)
	}
	before, _ := verifFSRead(files["A"])

	verifMergeResult = ""
	if verifChoose("merge.result.empty", 2) == 0 {
		verifMergeResult = verifMergeText("merge.result", 1, 300)
		for _, other := range known {
			verifAssume(verifOr(verifMergeResult == other, verifHashHex([]byte(verifMergeResult)) != verifHashHex([]byte(other))))
		}
	}
	verifMergeStatus = verifChoose("merge.status", 3)
	mergeDriverProgram = "merge %A %O %B >%D"
	mergeDriverOutput = files["A"]

	spec := map[string]string{}
	verifMergeSpec = spec
	mergeProcessInput(gf, files["O"], spec, "O")
	mergeProcessInput(gf, files["A"], spec, "A")
	mergeProcessInput(gf, files["B"], spec, "B")
	mergeProcessInput(gf, "", spec, "D")
	spec["L"] = "7"
	status, err := processFiles(spec, mergeDriverProgram, mergeDriverOutput)

	if verifMergeStatus == 2 {
		// (what happens then is not C01's subject)
		verifCover("program-not-started")
		return
	}
	for _, tag := range []string{"O", "A", "B"} {
		verifAssert(verifMergeSeen[tag] == want[tag], "the merge program is given the smudged content of each version")
	}
	verifAssert(err == nil, "cleaning the merge result succeeds")
	if verifMergeStatus == 1 {
		// (the exit status handed to Git is not C01's subject; with conflicts the
		// merged text - markers included - is cleaned like any other result)
		verifCover("conflicts")
	}
	_ = status
	out, ok := verifFSRead(files["A"])
	verifAssert(ok, "the output file exists")
	if len(out) < len(before) {
		verifCover("output-shorter-than-before")
	}
	if verifMergeResult == "" {
		verifCover("empty-result")
		verifAssert(out == "", "an empty merge result gives an empty output file")
	} else {
		verifCover("merged")
		oid := verifHashHex([]byte(verifMergeResult))
		verifAssert(out == "version https://git-lfs.github.com/spec/v1\noid sha256:"+oid+"\nsize "+strconv.Itoa(len(verifMergeResult))+"\n", "the output file holds exactly the canonical pointer of the merged bytes, whatever it held before")
		stored, sok := verifFSRead(config.VerifFS.ObjectPathname(oid))
		verifAssert(sok && stored == verifMergeResult, "the merged bytes are in local storage under that id")
	}
}
