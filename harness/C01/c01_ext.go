package commands

import (
	"bytes"
	"strconv"
	"strings"

	"github.com/git-lfs/git-lfs/v3/config"
	"github.com/git-lfs/git-lfs/v3/fs"
	"github.com/git-lfs/git-lfs/v3/lfs"
)

// the two extension programs of the harness: "a" grows the data (clean puts
// "A:" in front, smudge takes it off), "b" shrinks it (clean drops the final
// newline, smudge puts it back)
func verifExtApply(action, name, x string) string {
	switch action + " " + name {
	case "clean a":
		return "A:" + x
	case "smudge a":
		return strings.TrimPrefix(x, "A:")
	case "clean b":
		return strings.TrimSuffix(x, "\n")
	case "smudge b":
		return x + "\n"
	}
	return x
}

// VerifC01_Extension: clean and smudge with pointer extensions configured
// (the extension programs are scripted; pipeExtensions, the process plumbing,
// is replaced by a stub with the same contract): the pointer names the
// SHA-256 and length of what is stored - the transformed bytes -, lists each
// extension with the id of what went into it, the stored object is the
// transformed content, and smudging the printed pointer returns the original
// bytes exactly, whether the stored form is longer or shorter than the original.
func VerifC01_Extension() {
	root := verifTempDir()
	config.VerifFS = &fs.Filesystem{LFSStorageDir: root + "/lfs"}
	lfs.VerifTmpDir = root + "/lfs/tmp"
	verifFSWrite(root+"/lfs/objects/.keep", "", 0644)
	verifOverride("github.com/git-lfs/git-lfs/v3/commands.Print", verifQuiet)
	verifOverride("github.com/git-lfs/git-lfs/v3/commands.Error", verifQuiet)
	var names []string
	switch verifChoose("extensions", 3) {
	case 0:
		names = []string{"a"}
	case 1:
		names = []string{"b"}
	case 2:
		names = []string{"a", "b"}
	}
	config.VerifExtensions = map[string]config.Extension{}
	for k, n := range names {
		config.VerifExtensions[n] = config.Extension{Name: n, Clean: n + "-clean %f", Smudge: n + "-smudge %f", Priority: k}
	}
	body := verifNondetString("content.body")
	verifAssume(len(body) >= 1 && len(body) <= verifBound("content.len", 2000, 4000000))
	verifAssumeAlphabet(body, "AZaz")
	in := body + "\n"

	// what the pipeline produces, stage by stage
	stages := []string{in}
	for _, n := range names {
		stages = append(stages, verifExtApply("clean", n, stages[len(stages)-1]))
	}
	stored := stages[len(stages)-1]
	for k := range stages {
		for j := 0; j < k; j++ {
			verifAssume(verifHashHex([]byte(stages[j])) != verifHashHex([]byte(stages[k]))) // different bytes, no SHA-256 collision
		}
	}
	lfs.VerifPipeExt = func(action string, data string, exts []string) (string, []string) {
		oids := []string{verifHashHex([]byte(data))}
		cur := data
		for _, n := range exts {
			cur = verifExtApply(action, n, cur)
			oids = append(oids, verifHashHex([]byte(cur)))
		}
		return cur, oids
	}

	gf := lfs.NewGitFilter(&config.Configuration{})
	var out bytes.Buffer
	ptr, err := clean(gf, &out, strings.NewReader(in), "", -1)
	verifAssert(err == nil && ptr != nil, "cleaning succeeds")
	oid := verifHashHex([]byte(stored))
	verifAssert(ptr.Oid == oid && ptr.Size == int64(len(stored)), "the pointer names the SHA-256 and length of what is stored")
	want := "version https://git-lfs.github.com/spec/v1\n"
	for k, n := range names {
		want += "ext-" + strconv.Itoa(k) + "-" + n + " sha256:" + verifHashHex([]byte(stages[k])) + "\n"
	}
	want += "oid sha256:" + oid + "\nsize " + strconv.Itoa(len(stored)) + "\n"
	verifAssert(out.String() == want, "the printed pointer lists every extension with the id of its input")
	got, ok := verifFSRead(config.VerifFS.ObjectPathname(oid))
	verifAssert(ok && got == stored, "local storage holds the transformed bytes under that id")
	if len(stored) < len(in) {
		verifCover("stored-shorter")
	} else {
		verifCover("stored-longer")
	}

	p2, derr := lfs.DecodePointer(bytes.NewReader(out.Bytes()))
	verifAssert(derr == nil && p2 != nil && len(p2.Extensions) == len(names), "the printed pointer parses, extensions included")
	var back bytes.Buffer
	_, serr := gf.Smudge(&back, p2, "file.bin", false, nil, nil)
	verifAssert(serr == nil, "smudging the printed pointer succeeds")
	verifAssert(back.String() == in, "smudge returns the original bytes")
}
