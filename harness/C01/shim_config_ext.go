package config

// VerifExtensions is what the stubbed (*Configuration).Extensions returns.
var VerifExtensions map[string]Extension

func verifExtensionsStub2(c *Configuration) map[string]Extension { return VerifExtensions }
