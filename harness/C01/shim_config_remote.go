package config

func verifRemoteStub1x(c *Configuration) string { return "origin" }
