package lfs

import "strings"

// verifPointerLikeInput builds an arbitrary byte string in a form the engine
// can decompose syntactically: lead ++ core ++ trail with lead/trail ASCII white
// space (<= 3 bytes) and core = up to maxLines lines joined by LF, each line
// (with or without a trailing CR) either empty, free of spaces, or key SP rest
// with a space-free key. Every
// byte string whose trimmed core has at most maxLines lines has exactly one
// such decomposition, so nothing but the stated bounds (and the edge-byte
// restriction of the "trimmed" class) is excluded.
func verifPointerLikeInput(maxLines, maxLine int) string {
	return verifPointerLikeInputT(maxLines, maxLine, true)
}

// verifPointerLikeInputT: as above; withTrail=false leaves out the trailing
// white space (for callers that append more content).
func verifPointerLikeInputT(maxLines, maxLine int, withTrail bool) string {
	lead := verifNondetString("lead")
	trail := ""
	if withTrail {
		trail = verifNondetString("trail")
		verifAssumeClass(trail, "asciiws")
		verifAssume(len(trail) <= 3)
	}
	verifAssumeClass(lead, "asciiws")
	verifAssume(len(lead) <= 3)
	n := verifChoose("lines", maxLines+1)
	core := ""
	for k := 0; k < n; k++ {
		if k > 0 {
			core += "\n"
		}
		cr := []string{"", "\r"}[verifChoose("cr", 2)]
		switch verifChoose("line.kind", 3) {
		case 0: // empty line
			core += cr
		case 1: // no space
			w := verifNondetString("word")
			verifAssume(len(w) >= 1 && len(w) <= maxLine)
			verifAssume(verifNot(verifOr(strings.Contains(w, " "), strings.Contains(w, "\n"))))
			verifAssumeClass(w, "nocrend")
			core += w + cr
			// a line without a space ends decoding: what follows is never
			// parsed, so it is one unstructured tail (any bytes, any lines)
			if k+1 < n {
				tail := verifNondetString("tail")
				verifAssume(len(tail) <= maxLine)
				core += "\n" + tail
				k = n
			}
		case 2:
			key := verifNondetString("key")
			rest := verifNondetString("rest")
			verifAssume(len(key) <= 24 && len(rest) <= maxLine)
			verifAssume(verifNot(verifOr(strings.Contains(key, " "), strings.Contains(key, "\n"))))
			verifAssume(verifNot(strings.Contains(rest, "\n")))
			verifAssumeClass(rest, "nocrend")
			core += key + " " + rest + cr
		}
	}
	verifAssumeClass(core, "trimmed")
	return lead + core + trail
}
