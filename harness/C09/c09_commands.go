package commands

import (
	"bytes"
	"strings"

	"github.com/git-lfs/git-lfs/v3/config"
	"github.com/git-lfs/git-lfs/v3/fs"
	"github.com/git-lfs/git-lfs/v3/lfs"
)

func verifQuiet9(format string, args ...interface{}) {}

// VerifC09_CleanKilled: git-lfs is killed right before any one of the
// storage-mutating steps of `clean`. Afterwards nothing under lfs/objects has
// content that does not hash to its name, leftovers are confined to lfs/tmp,
// and running clean again completes with the same result as an uninterrupted run.
func VerifC09_CleanKilled() {
	root := verifTempDir()
	config.VerifFS = &fs.Filesystem{LFSStorageDir: root + "/lfs"}
	config.VerifTmp = root + "/lfs/tmp"
	lfs.VerifTmpDir = root + "/lfs/tmp"
	verifFSWrite(root+"/lfs/objects/.keep", "", 0644)
	verifFSWrite(root+"/lfs/tmp/.keep", "", 0644)
	verifOverride("github.com/git-lfs/git-lfs/v3/commands.Print", verifQuiet9)
	verifOverride("github.com/git-lfs/git-lfs/v3/commands.Error", verifQuiet9)
	gf := lfs.NewGitFilter(&config.Configuration{})
	t1 := verifNondetString("content.head")
	verifAssume(len(t1) >= 1 && len(t1) <= 1100)
	verifAssumeAlphabet(t1, "AZaz")
	verifAssume(verifNot(verifOr(strings.Contains(t1, "git-lfs"), verifOr(strings.Contains(t1, "git-media"), strings.Contains(t1, "hawser")))))
	t2 := ""
	if verifChoose("has.tail", 2) == 1 {
		t2 = verifNondetString("content.tail")
		verifAssume(len(t2) >= 1 && len(t2) <= 4000000)
		verifAssume(len(t1) >= 1024)
	}
	in := t1 + t2
	oid := verifHashHex([]byte(in))
	objPath := config.VerifFS.ObjectPathname(oid)
	// crash before the k-th mutating operation (k = 0: no crash)
	k := verifChoose("crash.before.op", verifBound("ops", 8, 10))
	var out bytes.Buffer
	crashed := verifRunWithCrash(k, func() {
		clean(gf, &out, strings.NewReader(in), "", -1)
	})
	if crashed {
		verifCover("killed")
	} else {
		verifCover("completed")
	}
	// invariant of local storage after the (possibly killed) run
	present := 0
	if stored, ok := verifFSRead(objPath); ok {
		present = 1
		verifAssert(stored == in, "an object present in local storage has exactly the content that hashes to its name")
	}
	verifAssert(verifFSCount(root+"/lfs/objects/") == 1+present, "only the object itself appears under lfs/objects")
	if !crashed {
		verifAssert(verifFSCount(root+"/lfs/tmp/") == 1, "an uninterrupted run leaves no temporary file")
	}
	// restart: the same command completes and ends in the uninterrupted state
	var out2 bytes.Buffer
	ptr, err := clean(gf, &out2, strings.NewReader(in), "", -1)
	verifAssert(err == nil && ptr != nil && ptr.Oid == oid, "re-running the command completes")
	stored, ok := verifFSRead(objPath)
	verifAssert(ok && stored == in, "after the re-run the object is stored with the right content")
}
