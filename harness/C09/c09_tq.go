package tq

import "github.com/git-lfs/git-lfs/v3/fs"

// VerifC09_DownloadKilled: git-lfs is killed right before any one of the
// storage-mutating steps of a basic download (temp-file creation, resume
// rename, each write burst, rename into place, unlink). The object's final
// location never holds bytes that do not hash to its name, leftovers stay in
// lfs/incomplete, and downloading again completes.
func VerifC09_DownloadKilled() {
	root := verifTempDir()
	a := &basicDownloadAdapter{&adapterBase{fs: fs.New(verifNoEnv{}, root+"/.git", root, root+"/lfs", 0644)}}
	expected := "The quick brown fox jumps over the lazy dog"
	oid := verifHashHex([]byte(expected))
	path := root + "/lfs/objects/final-object"
	t := &Transfer{Name: "file.bin", Oid: oid, Size: int64(len(expected)), Path: path,
		Actions: ActionSet{"download": &Action{Href: "https://example.com/object"}}}
	verifFSWrite(root+"/lfs/objects/.keep", "", 0644)
	verifFSWrite(root+"/lfs/incomplete/.keep", "", 0644)
	if verifChoose("part.state", 2) == 1 {
		part := verifNondetString("part.content")
		verifAssume(len(part) >= 1 && len(part) <= 48)
		verifAssume(verifOr(part == expected, verifHashHex([]byte(part)) != oid))
		verifFSWrite(a.downloadFilename(t), part, 0644)
	}
	// the server answers correctly, possibly cutting the first connection
	first := verifAnswer{status: 200, body: expected, cutAfter: -1}
	if verifChoose("first.connection.cut", 2) == 1 {
		first.cutAfter = verifNondetInt("cut.after")
		verifAssume(first.cutAfter >= 0 && first.cutAfter < len(expected))
	}
	good := verifAnswer{status: 200, body: expected, cutAfter: -1}
	verifAnswers = []verifAnswer{first, good, good, good}
	verifRequests = 0
	k := verifChoose("crash.before.op", verifBound("ops", 10, 12))
	crashed := verifRunWithCrash(k, func() {
		a.DoTransfer(nil, t, nil, nil)
	})
	if crashed {
		verifCover("killed")
	} else {
		verifCover("completed")
	}
	present := 0
	if after, ok := verifFSRead(path); ok {
		present = 1
		verifAssert(verifHashHex([]byte(after)) == oid, "a file at the object's final location always hashes to its name")
	}
	verifAssert(verifFSCount(root+"/lfs/objects/") == 1+present, "leftovers never appear in local object storage")
	// restart with a well-behaved server
	verifAnswers = []verifAnswer{good, good, good}
	verifRequests = 0
	err := a.DoTransfer(nil, t, nil, nil)
	after, ok := verifFSRead(path)
	verifAssert(err == nil && ok && after == expected, "downloading again completes with the right content")
}
