package lfs

import (
	"os"

	"github.com/git-lfs/git-lfs/v3/config"
	"github.com/git-lfs/git-lfs/v3/fs"
)

var verifTmp9 string

func verifTempFileStub9(cfg *config.Configuration, pattern string) (*os.File, error) {
	os.MkdirAll(verifTmp9, 0755)
	return os.CreateTemp(verifTmp9, pattern)
}

// VerifC09_ReferenceCopyKilled: an object is taken over from a reference
// store by copying (hard links are not possible) and git-lfs is killed right
// before any one of the storage-mutating steps: local object storage then holds
// either nothing for that object or the complete object, never a partial file
// and never a left-over temporary file (those belong in lfs/tmp); running the
// copy again completes.
func VerifC09_ReferenceCopyKilled() {
	root := verifTempDir()
	verifTmp9 = root + "/lfs/tmp"
	content := verifNondetString("object.content")
	verifAssume(len(content) >= 1 && len(content) <= 4000000)
	oid := verifHashHex([]byte(content))
	lfsfs := &fs.Filesystem{LFSStorageDir: root + "/lfs"}
	dst := lfsfs.ObjectPathname(oid)
	src := root + "/reference/lfs/objects/" + oid
	verifFSWrite(src, content, 0444)
	verifFSWrite(root+"/lfs/objects/.keep", "", 0644)
	verifFSWrite(root+"/lfs/objects/"+oid[0:2]+"/"+oid[2:4]+"/.keep", "", 0644)
	verifFSWrite(root+"/lfs/tmp/.keep", "", 0644)
	cfg := &config.Configuration{
		Git: config.EnvironmentOf(config.MapFetcher(map[string][]string{})),
		Os:  config.EnvironmentOf(config.MapFetcher(map[string][]string{})),
	}
	k := verifChoose("crash.before.op", verifBound("ops", 8, 10))
	var err error
	crashed := verifRunWithCrash(k, func() {
		err = CopyFileContents(cfg, src, dst)
	})
	if crashed {
		verifCover("killed")
	} else {
		verifCover("completed")
		verifAssert(err == nil, "the copy succeeds")
	}
	present := 0
	if stored, ok := verifFSRead(dst); ok {
		present = 1
		verifAssert(stored == content, "an object present in local storage is complete")
	}
	if !crashed {
		verifAssert(present == 1, "an uninterrupted copy stores the object")
		verifAssert(verifFSCount(root+"/lfs/tmp/") == 1, "and leaves no temporary file")
	}
	verifAssert(verifFSCount(root+"/lfs/objects/") == 2+present, "nothing but the object itself appears under lfs/objects, whenever the process dies")
	// restart
	verifAssert(CopyFileContents(cfg, src, dst) == nil, "re-running the copy completes")
	stored, ok := verifFSRead(dst)
	verifAssert(ok && stored == content, "and the object is stored with the right content")
	ref, _ := verifFSRead(src)
	verifAssert(ref == content, "the reference store is not changed")
}
