package commands

import "strings"

// One file name is a sequence of atoms: plain runs (bytes with no special
// meaning in a gitattributes pattern) and single special characters.
var verifSpecials = []string{" ", "#", "*", "?", "[", "]", "\\", "\t", "!", "\""}

// verifSpecEscape: what a gitattributes line must contain for the atom to be
// read back by Git as the literal byte(s) (gitattributes(5), gitignore(5)):
// white space via a [[:space:]] class, glob characters, '#' and '\' by a
// backslash; '!' and '"' only matter at the start of the pattern.
func verifSpecEscape(atom string, first bool) string {
	switch atom {
	case " ", "\t":
		return "[[:space:]]"
	case "#", "*", "?", "[", "]", "\\":
		return "\\" + atom
	case "!", "\"":
		if first {
			return "\\" + atom
		}
	}
	return atom
}

func verifFileName(maxAtoms int) (name string, escaped string, hasTab, leadingBang, leadingQuote bool) {
	n := 1 + verifChoose("atoms", maxAtoms)
	for k := 0; k < n; k++ {
		kind := verifChoose("atom.kind", len(verifSpecials)+1)
		if kind == len(verifSpecials) {
			run := verifNondetString("plain")
			verifAssume(len(run) >= 1 && len(run) <= 6)
			verifAssumeAlphabet(run, "az09..--__//")
			name += run
			escaped += run
			continue
		}
		atom := verifSpecials[kind]
		name += atom
		escaped += verifSpecEscape(atom, k == 0)
		if atom == "\t" {
			hasTab = true
		}
		if k == 0 && atom == "!" {
			leadingBang = true
		}
		if k == 0 && atom == "\"" {
			leadingQuote = true
		}
	}
	return
}

// VerifC19_EscapeFilename: the pattern written for `track --filename <name>`
// is the escaping under which Git reads back exactly that literal name.
func VerifC19_EscapeFilename() {
	name, want, hasTab, bang, quote := verifFileName(verifBound("atoms", 3, 4))
	verifKnown("C19-F11a-tab-in-filename", hasTab)
	verifKnown("C19-F11b-leading-exclamation", bang)
	verifKnown("C19-F11c-leading-double-quote", quote)
	got := escapeGlobCharacters(name)
	verifObserve("escaped.len", len(got))
	verifCover("escaped")
	verifAssert(got == want, "the written pattern escapes exactly the special characters of the name")
	verifAssert(!strings.Contains(got, " "), "the written pattern contains no raw space")
}

// VerifC19_AttrPatternRoundTrip: patterns read from .gitattributes are
// unescaped to what escapeAttrPattern would write again (idempotent track).
func VerifC19_AttrPatternRoundTrip() {
	name, _, hasTab, _, _ := verifFileName(verifBound("atoms", 3, 4))
	verifAssume(!hasTab)
	esc := escapeAttrPattern(name)
	verifCover("roundtrip")
	verifAssert(unescapeAttrPattern(esc) == name, "unescape(escape(pattern)) is the pattern")
	verifAssert(escapeAttrPattern(unescapeAttrPattern(esc)) == esc, "escaping is stable under re-reading (re-running track changes nothing)")
}

// VerifC19_EscapeFilenameConcrete: the same oracle with two fixed plain runs,
// so that every byte of the name is concrete and any implementation style of
// the escaping (byte-wise scanning included) is followed exactly: every
// sequence of <=3/4 atoms over the special characters and the runs "a", "b.c".
func VerifC19_EscapeFilenameConcrete() {
	atoms := append(append([]string{}, verifSpecials...), "a", "b.c")
	n := 1 + verifChoose("atoms", verifBound("concrete.atoms", 3, 4))
	name, want := "", ""
	hasTab, bang, quote := false, false, false
	for k := 0; k < n; k++ {
		atom := atoms[verifChoose("atom", len(atoms))]
		name += atom
		want += verifSpecEscape(atom, k == 0)
		hasTab = hasTab || atom == "\t"
		bang = bang || (k == 0 && atom == "!")
		quote = quote || (k == 0 && atom == "\"")
	}
	verifKnown("C19-F11a-tab-in-filename", hasTab)
	verifKnown("C19-F11b-leading-exclamation", bang)
	verifKnown("C19-F11c-leading-double-quote", quote)
	got := escapeGlobCharacters(name)
	verifCover("escaped-concrete")
	verifAssert(got == want, "the written pattern escapes exactly the special characters of the name")
	if !hasTab {
		esc := escapeAttrPattern(name)
		verifAssert(unescapeAttrPattern(esc) == name, "unescape(escape(pattern)) is the pattern")
	}
}
