package locking

func verifFixFlagsStub(c *Client, dir string, lockablePatterns, unlockablePatterns []string) error { return nil }
