package tools

// VerifCwd is returned by the stubbed Getwd.
var VerifCwd string

func verifGetwdStub() (string, error)          { return VerifCwd, nil }
func verifResolveSymlinksStub(p string) string { return p }
