package config

// VerifWorkDir is returned by the stubbed (*Configuration).LocalWorkingDir.
var VerifWorkDir string

func verifLocalWorkingDirStub(c *Configuration) string { return VerifWorkDir }
func verifLocalGitDirStub(c *Configuration) string     { return VerifWorkDir + "/.git" }
