package git

import (
	verif_strings "strings"

	"github.com/git-lfs/git-lfs/v3/git/gitattr"
)

// VerifAttributesText: the content of the repository's top-level
// .gitattributes, as the stubbed GetAttributePaths reads it (the real parser
// runs over it).
var VerifAttributesText string

func verifGetAttributePathsStub(mp *gitattr.MacroProcessor, workingDir, gitDir string) []AttributePath {
	if VerifAttributesText == "" {
		return nil
	}
	return AttrPathsFromReader(mp, workingDir+"/.gitattributes", workingDir, verif_strings.NewReader(VerifAttributesText), true)
}

func verifNoRootAttributePathsStub(mp *gitattr.MacroProcessor, cfg Env) []AttributePath { return nil }

func verifNoSystemAttributePathsStub(mp *gitattr.MacroProcessor, env Env) ([]AttributePath, error) {
	return nil, nil
}

func verifGetTrackedFilesStub(pattern string) ([]string, error) { return nil, nil }
