package commands

import (
	"os"
	"strings"

	"github.com/git-lfs/git-lfs/v3/config"
	"github.com/git-lfs/git-lfs/v3/git"
	"github.com/git-lfs/git-lfs/v3/locking"
	"github.com/git-lfs/git-lfs/v3/tools"
)

type verifExit19 struct{ code int }

func verifOsExit19(code int)                              { panic(verifExit19{code}) }
func verifExitStub19(format string, args ...interface{}) { panic(verifExit19{2}) }
func verifNoop19()                                        {}
func verifNoopForce19(force bool) error                   { return nil }
func verifSilent19(format string, args ...interface{})   {}
func verifNewLockClient19() *locking.Client               { return &locking.Client{} }

// verifFirstField: the pattern of a .gitattributes line (its first
// white-space delimited field), "" for blank lines.
func verifFirstField(line string) string {
	f := strings.Fields(line)
	if len(f) == 0 {
		return ""
	}
	return f[0]
}

func verifRunTrack(args []string) int {
	code := 0
	func() {
		defer func() {
			if r := recover(); r != nil {
				e, ok := r.(verifExit19)
				if !ok {
					panic(r)
				}
				code = e.code
			}
		}()
		trackCommand(nil, args)
	}()
	return code
}

// VerifC19_TrackMerge: `git lfs track` over an existing .gitattributes: the
// requested pattern ends up in the file exactly as the escaping rules spell it
// (a literal file name and a glob of the same spelling are different lines),
// with filter=lfs diff=lfs merge=lfs -text and the requested lockable flag; all
// other lines keep their text and their order (a changed line stays where it
// was, so later overriding lines keep overriding); running the same command
// again changes nothing.
func VerifC19_TrackMerge() {
	root := verifTempDir()
	work := root + "/work"
	attrPath := work + "/.gitattributes"
	if verifSymbolic() {
		attrPath = ".gitattributes" // the command opens it relative to its working directory
	}
	verifFSWrite(work+"/.keep", "", 0644)
	verifOverride("github.com/git-lfs/git-lfs/v3/commands.Print", verifSilent19)
	verifOverride("github.com/git-lfs/git-lfs/v3/commands.Error", verifSilent19)
	verifOverride("os.Exit", verifOsExit19)
	if !verifSymbolic() {
		os.Chdir(work)
	}
	config.VerifWorkDir = work
	tools.VerifCwd = work
	cfg = &config.Configuration{
		Git: config.EnvironmentOf(config.MapFetcher(map[string][]string{})),
		Os:  config.EnvironmentOf(config.MapFetcher(map[string][]string{})),
	}
	trackLockableFlag, trackNotLockableFlag, trackVerboseLoggingFlag = false, false, false
	trackDryRunFlag, trackNoModifyAttrsFlag, trackNoExcludedFlag, trackJSONFlag = false, false, false, false

	// the request
	names := []string{"*.dat", "shot[1].dat", "a b.dat", "dir/notes#1.dat"}
	name := names[verifChoose("argument", len(names))]
	trackFilenameFlag = verifChoose("--filename", 2) == 1
	switch verifChoose("lockable.flag", 3) {
	case 1:
		trackLockableFlag = true
	case 2:
		trackNotLockableFlag = true
	}
	var encoded string
	if trackFilenameFlag {
		encoded = escapeGlobCharacters(name)
	} else {
		encoded = escapeAttrPattern(name)
	}

	// the file before: up to three lines from a menu, in any line ending
	eol := []string{"\n", "\r\n"}[verifChoose("line.ending", 2)]
	menu := []string{
		"# a comment",
		"*.txt text eol=lf",
		encoded + " filter=lfs diff=lfs merge=lfs -text",
		encoded + " filter=lfs diff=lfs merge=lfs -text lockable",
		escapeGlobCharacters(name) + " filter=lfs diff=lfs merge=lfs -text",
		escapeAttrPattern(name) + " filter=lfs diff=lfs merge=lfs -text",
		"fixtures/*.dat -filter -diff -merge text",
	}
	nlines := verifChoose("existing.lines", verifBound("existing.lines", 3, 4))
	var before []string
	usedLFS := false
	for k := 0; k < nlines; k++ {
		j := verifChoose("line", len(menu))
		if j >= 2 && j <= 5 {
			verifAssume(!usedLFS) // at most one line for the pattern itself
			usedLFS = true
		}
		before = append(before, menu[j])
	}
	text := ""
	for _, l := range before {
		text += l + eol
	}
	if text != "" && verifChoose("last.line.unterminated", 2) == 1 {
		// a file whose last line has no line ending (written by hand)
		text = strings.TrimSuffix(text, eol)
	}
	if text != "" {
		verifFSWrite(attrPath, text, 0644)
	}
	git.VerifAttributesText = text

	code := verifRunTrack([]string{name})
	verifAssert(code == 0, "tracking succeeds")
	after, exists := verifFSRead(attrPath)
	verifAssert(exists, ".gitattributes exists afterwards")
	// (the command writes every line with one line ending: the file's, or the
	// platform's when no pattern line told it; compare line texts)
	lines := strings.Split(strings.TrimSuffix(after, "\n"), "\n")
	for k := range lines {
		lines[k] = strings.TrimSuffix(lines[k], "\r")
	}

	// 1. the requested pattern is in the file, spelled by the escaping rules
	want := encoded + " filter=lfs diff=lfs merge=lfs -text"
	found := -1
	for k, l := range lines {
		if verifFirstField(l) == encoded {
			verifAssert(found < 0, "the pattern has one line")
			found = k
		}
	}
	verifCover("tracked")
	verifAssert(found >= 0, "the requested pattern has a line of its own, spelled by the escaping rules")
	hasLockable := strings.HasSuffix(lines[found], " lockable")
	verifAssert(strings.TrimSuffix(lines[found], " lockable") == want, "with the LFS attributes")
	// (the lockable flag is C16's business, not C19's: nothing is demanded of it here)
	_ = hasLockable

	// 2. every other line is kept, in order, and a line for the pattern stays in place
	k2 := 0
	for k, l := range before {
		if verifFirstField(l) == encoded {
			verifAssert(found == k, "an existing line for the pattern is updated where it stands")
			k2++
			continue
		}
		verifAssert(k2 < len(lines) && lines[k2] == l, "every other line keeps its text and its place")
		k2++
	}
	verifAssert(len(lines) <= len(before)+1, "at most one line is added")

	// 3. the same command again changes nothing
	git.VerifAttributesText = after
	code2 := verifRunTrack([]string{name})
	again, _ := verifFSRead(attrPath)
	verifAssert(code2 == 0 && again == after, "running track with the same argument again changes nothing")
}
