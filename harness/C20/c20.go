package lfs

import (
	"strings"

	"github.com/git-lfs/git-lfs/v3/git"
	"github.com/git-lfs/git-lfs/v3/tools"
)

// verifHookFile builds the pre-existing hook file content:
//   lead ++ core ++ pad ++ rest
// lead/pad ASCII white space, core and rest "trimmed" and "undented" strings
// (rest possibly empty). core is the current template, a historical template
// (optionally tab-indented) or an arbitrary user script. Either the whole file
// is at most 1024 bytes, or lead++core++pad is exactly 1024 bytes and rest is
// what lies beyond the 1024 bytes the hook check reads.
func verifHookFile(h *Hook) (content string, long bool) {
	lead := verifNondetString("lead")
	pad := verifNondetString("pad")
	verifAssumeClass(lead, "asciiws")
	verifAssumeClass(pad, "asciiws")
	verifAssume(len(lead) <= 2)
	var core string
	switch verifChoose("core.kind", 5) {
	case 0:
		core = h.Contents
	case 1:
		core = h.upgradeables[verifChoose("historical", len(h.upgradeables))]
	case 2:
		core = strings.TrimSpace(tools.Indent(h.upgradeables[verifChoose("historical.indented", len(h.upgradeables))]))
	case 3:
		core = verifNondetString("user.script")
		verifAssume(len(core) >= 1 && len(core) <= verifBound("script.len", 120, 400))
		verifAssumeClass(core, "trimmed")
		verifAssumeClass(core, "undented")
	case 4:
		core = "" // an all-blank file
	}
	rest := ""
	if verifChoose("has.rest", 2) == 1 {
		rest = verifNondetString("rest")
		verifAssume(len(rest) >= 1 && len(rest) <= 64)
		verifAssumeClass(rest, "trimmed")
		verifAssumeClass(rest, "undented")
	}
	if rest != "" && verifChoose("long", 2) == 1 {
		verifAssume(len(lead)+len(core)+len(pad) == 1024)
		return lead + core + pad + rest, true
	}
	verifAssume(len(pad) <= 1100)
	verifAssume(len(lead)+len(core)+len(pad)+len(rest) <= 1024)
	return lead + core + pad + rest, false
}

// verifIsLFSHook: the documented notion of "a hook git-lfs generated": after
// removing per-line indentation and surrounding white space the whole file is
// the current or a historical template (an all-blank file counts as no hook).
func verifIsLFSHook(h *Hook, content string) (isLFS bool, isCurrent bool) {
	norm := strings.TrimSpace(tools.Undent(content))
	isCurrent = norm == h.Contents
	isLFS = verifOr(isCurrent, norm == "")
	for _, u := range h.upgradeables {
		isLFS = verifOr(isLFS, norm == u)
	}
	return
}

// VerifC20_HookUpgradeUninstall: update/uninstall never overwrite or delete a
// hook that git-lfs did not generate.
func VerifC20_HookUpgradeUninstall() {
	dir := verifTempDir() + "/hooks"
	hooks := LoadHooks(dir, nil)
	h := hooks[verifChoose("hook", verifBound("hook.types", 2, 4))]
	content, long := verifHookFile(h)
	path := dir + "/" + h.Type
	verifFSWrite(path, content, 0755)
	isLFS, isCurrent := verifIsLFSHook(h, content)
	verifKnown("C20-F6-hook-beyond-1024", long)
	op := verifChoose("operation", 2)
	if op == 0 {
		err := h.Upgrade()
		after, exists := verifFSRead(path)
		verifAssert(exists, "update never removes a hook")
		if !isLFS {
			verifCover("upgrade-foreign")
			verifAssert(after == content, "a hook git-lfs did not generate is left byte-identical by update")
			verifAssert(err != nil, "the conflict is reported")
		} else if isCurrent {
			verifCover("upgrade-current")
			verifAssert(after == content && err == nil, "the current hook is left alone")
		} else if !long {
			verifCover("upgrade-historical")
			verifAssert(err == nil && after == h.Contents+"\n", "a historical LFS hook is replaced by the current one")
		} else {
			// a file longer than 1024 bytes may be refused even if it normalises to a
			// template (the statement only forbids touching foreign hooks)
			verifAssert(after == content || after == h.Contents+"\n", "an over-long LFS hook is either left alone or upgraded")
		}
		return
	}
	err := h.Uninstall()
	after, exists := verifFSRead(path)
	if !isLFS {
		verifCover("uninstall-foreign")
		verifAssert(exists && after == content, "a hook git-lfs did not generate survives uninstall unchanged")
	} else if !long {
		verifCover("uninstall-lfs")
		verifAssert(err == nil && !exists, "an LFS hook is removed by uninstall")
	} else {
		verifAssert(!exists || after == content, "an over-long LFS hook is either removed or left alone")
	}
}

// VerifC20_HookWithUserLines: a hook that consists of a git-lfs template plus
// user commands before or after it (the quantifier's "user script containing
// the LFS line") is a user's hook: update reports the conflict and uninstall
// leaves it, byte for byte.
func VerifC20_HookWithUserLines() {
	dir := verifTempDir() + "/hooks"
	hooks := LoadHooks(dir, nil)
	h := hooks[verifChoose("hook", verifBound("hook.types", 2, 4))]
	var tmpl string
	if verifChoose("template", 2) == 0 {
		tmpl = h.Contents
	} else {
		tmpl = h.upgradeables[verifChoose("historical", len(h.upgradeables))]
	}
	user := verifNondetString("user.line")
	verifAssume(len(user) >= 1 && len(user) <= 24)
	verifAssumeAlphabet(user, "azAZ09")
	verifAssumeClass(user, "trimmed")
	verifAssumeClass(user, "undented")
	sep := []string{"\n", "\n\n", "\r\n", "\n\t"}[verifChoose("separator", 4)]
	var content string
	if verifChoose("user.position", 2) == 0 {
		content = tmpl + sep + user + "\n"
	} else {
		content = user + sep + tmpl + "\n"
	}
	path := dir + "/" + h.Type
	verifFSWrite(path, content, 0755)
	if verifChoose("operation", 2) == 0 {
		err := h.Upgrade()
		after, exists := verifFSRead(path)
		verifCover("update")
		verifAssert(exists && after == content, "a template with user lines around it is left byte-identical by update")
		verifAssert(err != nil, "the conflict is reported")
		return
	}
	h.Uninstall()
	after, exists := verifFSRead(path)
	verifCover("uninstall")
	verifAssert(exists && after == content, "a template with user lines around it survives uninstall")
}

// VerifC20_HookInstallFresh: with no hook present the current hook is written;
// installing twice equals installing once.
func VerifC20_HookInstallFresh() {
	dir := verifTempDir() + "/hooks"
	hooks := LoadHooks(dir, nil)
	h := hooks[verifChoose("hook", len(hooks))]
	path := dir + "/" + h.Type
	verifFSWrite(dir+"/README.sample", "x", 0644) // the hooks directory exists
	verifAssert(!h.Exists(), "no hook initially")
	verifAssert(h.write() == nil, "writing the hook succeeds")
	first, ok := verifFSRead(path)
	verifAssert(ok && first == h.Contents+"\n", "the installed hook is the current template")
	verifAssert(h.Exists(), "the hook exists afterwards")
	verifAssert(h.Upgrade() == nil, "a second install is accepted")
	second, ok2 := verifFSRead(path)
	verifCover("installed-twice")
	verifAssert(ok2 && second == first, "installing twice equals installing once")
	verifAssert(h.Uninstall() == nil && !verifFSExists(path), "uninstall after install removes the hook again")
}

// historical filter.lfs.* values written by earlier git-lfs versions (these
// may be upgraded silently); stated here independently of lfs/attribute.go
var verifHistorical = map[string][]string{
	"clean":   {"git-lfs clean %f", "git-lfs clean -- %f"},
	"smudge":  {"git-lfs smudge %f", "git-lfs smudge --skip %f", "git-lfs smudge --skip -- %f", "git-lfs smudge -- %f"},
	"process": {"git-lfs filter", "git-lfs filter --skip", "git-lfs filter-process --skip", "git-lfs filter-process"},
}

// VerifC20_FilterConfig: install never replaces a differing filter.lfs.* value
// that is neither unset nor one of git-lfs's own historical values, unless
// forced; the conflict is reported; installing twice equals installing once.
func VerifC20_FilterConfig() {
	git.VerifStore = map[string]string{}
	git.VerifWrites = nil
	skipSmudge := verifChoose("skip.smudge", 2) == 1
	attr := filterAttribute()
	if skipSmudge {
		attr = skipSmudgeFilterAttribute()
	}
	props := []string{"clean", "smudge", "process", "required"}
	prop := props[verifChoose("property", len(props))]
	key := "filter.lfs." + prop
	want := attr.Properties[prop]
	scopeFlag := []string{"--local", "--global", "--system", "--worktree"}[verifChoose("scope", 4)]
	opt := &FilterOptions{GitConfig: git.NewConfig("", ""), Force: verifNondetBool("force"),
		Local: scopeFlag == "--local", System: scopeFlag == "--system", Worktree: scopeFlag == "--worktree"}
	// pre-existing value of that one key: unset, current, historical, or custom text
	var before string
	ups := verifHistorical[prop]
	switch verifChoose("existing.kind", 4) {
	case 0:
		before = ""
	case 1:
		before = want
	case 2:
		if len(ups) == 0 {
			verifAssume(false)
		}
		before = ups[verifChoose("historical", len(ups))]
	case 3:
		// custom: arbitrary printable text around nothing or around one of git-lfs's own command lines
		pre := verifNondetString("custom.prefix")
		suf := verifNondetString("custom.suffix")
		verifAssume(len(pre) <= 12 && len(suf) <= 12)
		verifAssumeAlphabet(pre, " ~")
		verifAssumeAlphabet(suf, " ~")
		mid := []string{"", want, "git-lfs smudge %f", "git-lfs clean %f"}[verifChoose("custom.embeds", 4)]
		before = pre + mid + suf
	}
	if before != "" {
		git.VerifStore[scopeFlag+" "+key] = before
	}
	isOurs := verifOr(before == "", before == want)
	for _, u := range ups {
		isOurs = verifOr(isOurs, before == u)
	}
	err := attr.Install(opt)
	after := git.VerifStore[scopeFlag+" "+key]
	if !opt.Force && !isOurs {
		verifCover("custom-value-kept")
		verifAssert(after == before, "a differing custom value is not replaced without --force")
		verifAssert(err != nil, "the conflict is reported")
		return
	}
	if !opt.Force && before != "" && before != want {
		// a historical git-lfs value: upgraded silently, or kept and reported
		verifCover("historical-value")
		verifAssert((err == nil && after == want) || (err != nil && after == before), "a historical value is upgraded, or kept with the conflict reported")
		return
	}
	verifCover("value-set")
	verifAssert(err == nil && after == want, "unset, current or forced values become the current value")
	for _, p := range props {
		verifAssert(git.VerifStore[scopeFlag+" filter.lfs."+p] == attr.Properties[p], "all four filter settings are installed")
	}
	writes := len(git.VerifWrites)
	verifAssert(attr.Install(opt) == nil && git.VerifStore[scopeFlag+" "+key] == want, "installing twice equals installing once")
	_ = writes
}
