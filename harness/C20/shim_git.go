package git

// VerifStore is the harness-controlled `git config` backend: "<scope> <key>" -> value.
var (
	VerifStore  = map[string]string{}
	VerifWrites []string
)

func verifScopeOf(args []string) (scope string, rest []string) {
	scope = "default"
	for len(args) > 0 {
		switch args[0] {
		case "--local", "--global", "--system", "--worktree":
			scope, args = args[0], args[1:]
		case "--file":
			scope, args = "--file "+args[1], args[2:]
		default:
			return scope, args
		}
	}
	return scope, args
}

func verifConfigStoreStub(c *Configuration, args ...string) (string, error) {
	scope, rest := verifScopeOf(args)
	switch {
	case len(rest) == 1: // read
		return VerifStore[scope+" "+rest[0]], nil
	case len(rest) == 3 && rest[0] == "--replace-all":
		if scope == "default" {
			scope = "--local" // SetLocal writes without a scope flag
		}
		VerifStore[scope+" "+rest[1]] = rest[2]
		VerifWrites = append(VerifWrites, scope+" "+rest[1]+"="+rest[2])
		return "", nil
	}
	return "", nil
}
