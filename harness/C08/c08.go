package commands

import (
	"bytes"
	"io"
	"strings"

	"github.com/git-lfs/git-lfs/v3/config"
	"github.com/git-lfs/git-lfs/v3/errors"
	"github.com/git-lfs/git-lfs/v3/fs"
	"github.com/git-lfs/git-lfs/v3/lfs"
)

// verifPipe delivers the chunks one Read at a time (see C01's verifChunks).
type verifPipe struct {
	chunks      []string
	eofWithLast bool
}

func (r *verifPipe) Read(p []byte) (int, error) {
	for len(r.chunks) > 0 && len(r.chunks[0]) == 0 {
		r.chunks = r.chunks[1:]
	}
	if len(r.chunks) == 0 {
		return 0, io.EOF
	}
	if len(p) == 0 {
		return 0, nil
	}
	c := r.chunks[0]
	if len(c) <= len(p) {
		n := copy(p, c)
		r.chunks = r.chunks[1:]
		if len(r.chunks) == 0 && r.eofWithLast {
			return n, io.EOF
		}
		return n, nil
	}
	n := copy(p, c[:len(p)])
	r.chunks[0] = c[len(p):]
	return n, nil
}

func (r *verifPipe) verifDrain() string {
	rest := ""
	for _, c := range r.chunks {
		rest += c
	}
	r.chunks = nil
	return rest
}

// VerifC08_SmudgeNonPointer: bytes that do not parse as a pointer pass through
// the smudge filter unchanged, however long they are and however they arrive.
func VerifC08_SmudgeNonPointer() {
	root := verifTempDir()
	config.VerifFS = &fs.Filesystem{LFSStorageDir: root + "/lfs"}
	config.VerifTmp = root + "/lfs/tmp"
	verifFSWrite(root+"/lfs/tmp/.keep", "", 0644)
	verifOverride("github.com/git-lfs/git-lfs/v3/commands.Print", verifQuiet8)
	verifOverride("github.com/git-lfs/git-lfs/v3/commands.Error", verifQuiet8)
	gf := lfs.NewGitFilter(&config.Configuration{})
	var in string
	var chunks []string
	if verifChoose("input.kind", 2) == 0 {
		t1 := verifNondetString("content.head")
		verifAssume(len(t1) >= 1 && len(t1) <= 1100)
		verifAssumeAlphabet(t1, "AZaz")
		verifAssume(verifNot(verifOr(strings.Contains(t1, "git-lfs"), verifOr(strings.Contains(t1, "git-media"), strings.Contains(t1, "hawser")))))
		t2 := ""
		if verifChoose("has.tail", 2) == 1 {
			t2 = verifNondetString("content.tail")
			verifAssume(len(t2) >= 1 && len(t2) <= 4000000)
			verifAssume(len(t1) >= 1024)
		}
		in = t1 + t2
		chunks = []string{in}
		if verifChoose("two.chunks", 2) == 1 {
			chunks = []string{t1, t2}
		}
	} else {
		// text that starts like a pointer but is none: one damaged field
		verifCover("look-alike")
		version := "https://git-lfs.github.com/spec/v1"
		oidLine := "oid sha256:" + strings.Repeat("0123456789abcdef", 4)
		sizeLine := "size 12"
		switch verifChoose("damage", 6) {
		case 0: // an id that is not lower-case hex
			id := verifNondetString("bad.oid")
			verifAssume(len(id) == 64)
			verifAssumeAlphabet(id, "AF")
			oidLine = "oid sha256:" + id
		case 1: // another hash type
			oidLine = "oid sha1:" + strings.Repeat("0123456789abcdef0123", 2)
		case 2: // a negative size
			sizeLine = "size -1"
		case 3: // a size that is no number
			word := verifNondetString("bad.size")
			verifAssume(len(word) >= 1 && len(word) <= 6)
			verifAssumeAlphabet(word, "az")
			sizeLine = "size " + word
		case 4: // an unknown version of the specification
			version = "https://git-lfs.github.com/spec/v2"
		case 5: // the id is missing
			oidLine = "oid"
		}
		in = "version " + version + "\n" + oidLine + "\n" + sizeLine + "\n"
		chunks = []string{in}
	}
	var out bytes.Buffer
	n, err := smudge(gf, &out, &verifPipe{chunks: chunks, eofWithLast: verifNondetBool("eof.with.last")}, "file.bin", false, nil)
	verifCover("passthrough")
	verifAssert(out.String() == in, "non-pointer bytes are written back unchanged")
	verifAssert(n == 0 && err != nil && errors.IsNotAPointerError(err), "the caller is told that the input was not a pointer")
	verifAssert(verifFSCount(root+"/lfs/objects/") == 0, "nothing is added to local storage")
	verifAssert(verifFSCount(root+"/lfs/tmp/") == 1, "the spool file is removed again")
}

func verifQuiet8(format string, args ...interface{}) {}
