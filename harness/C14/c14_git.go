package git

import (
	"fmt"
	"io"
	"strings"

	"github.com/git-lfs/pktline"
)

var verifHeaderLines []string

func verifReadPacketListStub(p *pktline.Pktline) ([]string, error) {
	if verifHeaderLines == nil {
		return nil, io.EOF
	}
	l := verifHeaderLines
	verifHeaderLines = nil
	return l, nil
}

func verifPktEnc(s string) string { return fmt.Sprintf("%04x%s", len(s)+4, s) }

// VerifC14_RequestHeaders: the headers of a request reach the filter command
// exactly as Git sent them: the key is the text before the first '=', the
// value everything after it, byte for byte (path names with blanks at either
// end, '=' or quotes inside are the user's file names).
func VerifC14_RequestHeaders() {
	path := verifNondetString("pathname")
	verifAssume(len(path) >= 1 && len(path) <= 24)
	verifAssumeAlphabet(path, " ~") // printable ASCII, including blanks, '=', quotes
	cmd := []string{"clean", "smudge"}[verifChoose("command", 2)]
	lines := []string{"command=" + cmd, "pathname=" + path}
	if verifChoose("can-delay", 2) == 1 {
		lines = append(lines, "can-delay=1")
	}
	if verifChoose("treeish", 2) == 1 {
		lines = append(lines, "treeish=0123456789abcdef0123456789abcdef01234567")
	}
	var stream strings.Builder
	for _, l := range lines {
		stream.WriteString(verifPktEnc(l + "\n"))
	}
	stream.WriteString("0000")
	// in the engine the packet framing is replaced by its result (the list of
	// packet texts); natively the real pkt-line reader parses the stream
	verifHeaderLines = lines
	verifOverride("(*github.com/git-lfs/pktline.Pktline).ReadPacketList", verifReadPacketListStub)
	s := NewFilterProcessScanner(strings.NewReader(stream.String()), io.Discard)
	verifAssert(s.Scan(), "a well-formed request is accepted")
	req := s.Request()
	verifAssert(req != nil && len(req.Header) == len(lines), "every header line becomes one header")
	verifCover("request-read")
	verifAssert(req.Header["command"] == cmd, "the command is passed on")
	verifAssert(req.Header["pathname"] == path, "the path name is passed on byte for byte")
	for _, l := range lines[2:] {
		k := strings.IndexByte(l, '=')
		verifAssert(req.Header[l[:k]] == l[k+1:], "every other header is passed on")
	}
	verifAssert(!s.Scan() && (s.Err() == nil || s.Err() == io.EOF), "the end of the stream ends the scan")
}
