package commands

import (
	"bufio"
	"fmt"
	"io"
	"os"
	"strconv"
	"strings"

	"github.com/git-lfs/git-lfs/v3/config"
	"github.com/git-lfs/git-lfs/v3/fs"
	"github.com/git-lfs/git-lfs/v3/git"
	"github.com/git-lfs/git-lfs/v3/lfs"
	"github.com/git-lfs/git-lfs/v3/tq"
	"github.com/git-lfs/pktline"
)

// ---- Git as the filter's client: a small simulator that follows Git's
// client grammar (convert.c / entry.c): first one request per checked-out or
// added file; then, while files were delayed, list_available_blobs until the
// answer is empty, retrieving every announced path with a content-less smudge.

type verifReq struct {
	cmd      string // clean | smudge | list_available_blobs
	path     string
	canDelay bool
	payload  string
	chunks   []string // how the payload reaches the filter (packet boundaries)
	retrieve bool     // the content-less smudge that fetches an announced blob
}

type verifExchange struct {
	req    verifReq
	answer []string // "S:<status>", "L:<a>,<b>", "C:<bytes>", "F:"
}

type verifGitSim struct {
	initial    []verifReq
	idx        int
	delayed    []string // paths the filter delayed and has not delivered yet
	toFetch    []string // announced, not yet retrieved
	lists      int
	finished   bool
	anyDelayed bool
	later      [][]verifReq // further checkouts served by the same process
	roundsDone int
	log        []verifExchange
}

var verifGit *verifGitSim

func (g *verifGitSim) next() (verifReq, bool) {
	for {
		if g.idx < len(g.initial) {
			g.idx++
			return g.initial[g.idx-1], true
		}
		if len(g.toFetch) > 0 {
			p := g.toFetch[0]
			g.toFetch = g.toFetch[1:]
			return verifReq{cmd: "smudge", path: p, retrieve: true}, true
		}
		// finish_delayed_checkout: Git asks until the filter answers an empty list
		if g.anyDelayed && !g.finished && g.lists < 6 {
			g.lists++
			return verifReq{cmd: "list_available_blobs"}, true
		}
		// the next checkout in the same filter process (rebase, cherry-pick ...)
		if len(g.later) == 0 {
			return verifReq{}, false
		}
		g.initial = append(g.initial, g.later[0]...)
		g.later = g.later[1:]
		g.anyDelayed, g.finished, g.lists = false, false, 0
		g.roundsDone++
	}
}

func (g *verifGitSim) done(r verifReq, answer []string) {
	g.log = append(g.log, verifExchange{r, answer})
	switch {
	case r.cmd == "smudge" && r.canDelay && len(answer) == 1 && answer[0] == "S:delayed":
		g.delayed = append(g.delayed, r.path)
		g.anyDelayed = true
	case r.cmd == "list_available_blobs":
		if len(answer) == 0 || !strings.HasPrefix(answer[0], "L:") {
			g.finished = true
			return
		}
		if answer[0] == "L:" {
			g.finished = true // an empty list ends the delayed checkout
			return
		}
		for _, e := range strings.Split(answer[0][2:], ",") {
			g.toFetch = append(g.toFetch, strings.TrimPrefix(e, "pathname="))
		}
	case r.retrieve:
		for k, p := range g.delayed {
			if p == r.path {
				g.delayed = append(g.delayed[:k:k], g.delayed[k+1:]...)
				break
			}
		}
	}
}

// ---- engine side: stand-ins for the pkt-line scanner and writer, driven by
// the simulator (natively the real ones run over pipes, see verifRunFilter)

var (
	verifCurReq    verifReq
	verifCurAnswer []string
	verifHaveReq   bool
)

func verifEmit(kind, s string) {
	if kind == "C" && len(verifCurAnswer) > 0 && strings.HasPrefix(verifCurAnswer[len(verifCurAnswer)-1], "C:") {
		verifCurAnswer[len(verifCurAnswer)-1] += s
		return
	}
	if kind == "C" && s == "" {
		return
	}
	verifCurAnswer = append(verifCurAnswer, kind+":"+s)
}

// chunked payload reader: one Read returns at most one chunk (a packet)
type verifPayload struct{ chunks []string }

func (r *verifPayload) Read(p []byte) (int, error) {
	for len(r.chunks) > 0 && len(r.chunks[0]) == 0 {
		r.chunks = r.chunks[1:]
	}
	if len(r.chunks) == 0 {
		return 0, io.EOF
	}
	if len(p) == 0 {
		return 0, nil
	}
	c := r.chunks[0]
	if len(c) <= len(p) {
		n := copy(p, c)
		r.chunks = r.chunks[1:]
		return n, nil
	}
	n := copy(p, c[:len(p)])
	r.chunks[0] = c[len(p):]
	return n, nil
}

func (r *verifPayload) verifDrain() string {
	rest := strings.Join(r.chunks, "")
	r.chunks = nil
	return rest
}

func verifScannerNew(r io.Reader, w io.Writer) *git.FilterProcessScanner {
	return &git.FilterProcessScanner{}
}
func verifScannerInit(s *git.FilterProcessScanner) error { return nil }
func verifScannerCaps(s *git.FilterProcessScanner) ([]string, error) {
	caps := []string{"capability=clean", "capability=smudge"}
	if verifDelayCap {
		caps = append(caps, "capability=delay")
	}
	return caps, nil
}
func verifScannerScan(s *git.FilterProcessScanner) bool {
	if verifHaveReq {
		verifGit.done(verifCurReq, verifCurAnswer)
	}
	verifCurAnswer = nil
	verifCurReq, verifHaveReq = verifGit.next()
	return verifHaveReq
}
func verifScannerRequest(s *git.FilterProcessScanner) *git.Request {
	r := verifCurReq
	h := map[string]string{"command": r.cmd}
	if r.cmd != "list_available_blobs" {
		h["pathname"] = r.path
	}
	if r.canDelay {
		h["can-delay"] = "1"
	}
	return &git.Request{Header: h, Payload: &verifPayload{chunks: append([]string(nil), r.chunks...)}}
}
func verifScannerErr(s *git.FilterProcessScanner) error { return io.EOF }
func verifScannerStatus(s *git.FilterProcessScanner, st git.FilterProcessStatus) error {
	verifEmit("S", st.String())
	return nil
}
func verifScannerList(s *git.FilterProcessScanner, list []string) error {
	verifCurAnswer = append(verifCurAnswer, "L:"+strings.Join(list, ","))
	return nil
}
func verifWriterNew(w io.Writer, c int) *pktline.PktlineWriter { return &pktline.PktlineWriter{} }
func verifWriterWrite(w *pktline.PktlineWriter, p []byte) (int, error) {
	verifEmit("C", string(p))
	return len(p), nil
}
func verifWriterFlush(w *pktline.PktlineWriter) error {
	if w != nil {
		verifCurAnswer = append(verifCurAnswer, "F:")
	}
	return nil
}

var verifDelayCap bool

// the download manifest handed to smudge (nil unless a harness sets one up)
var verifManifest tq.Manifest

func verifManifestStub(operation, remote string) tq.Manifest { return verifManifest }

func verifCurrentRemoteRefStub() *git.Ref {
	return &git.Ref{Name: "main", Type: git.RefTypeLocalBranch}
}

func verifNoop()                      {}
func verifNoopMsg(msg string)         {}
func verifNoopForce(force bool) error { return nil }

// ---- native side: the simulator talks pkt-line with the real filter over pipes

func verifPkt(s string) string { return fmt.Sprintf("%04x%s", len(s)+4, s) }

func verifReadPkt(r *bufio.Reader) (data string, flush bool, ok bool) {
	var hdr [4]byte
	if _, err := io.ReadFull(r, hdr[:]); err != nil {
		return "", false, false
	}
	n, err := strconv.ParseInt(string(hdr[:]), 16, 32)
	if err != nil {
		return "", false, false
	}
	if n == 0 {
		return "", true, true
	}
	if n < 4 {
		return "", false, false
	}
	buf := make([]byte, n-4)
	if _, err := io.ReadFull(r, buf); err != nil {
		return "", false, false
	}
	return string(buf), false, true
}

func verifReadList(r *bufio.Reader) ([]string, bool) {
	var l []string
	for {
		d, fl, ok := verifReadPkt(r)
		if !ok {
			return l, false
		}
		if fl {
			return l, true
		}
		l = append(l, strings.TrimSuffix(d, "\n"))
	}
}

// verifReadAnswer reads the filter's answer to one request.
func verifReadAnswer(r *bufio.Reader, req verifReq) []string {
	var ev []string
	if req.cmd == "list_available_blobs" {
		l, ok := verifReadList(r)
		if !ok {
			return append(ev, "BROKEN")
		}
		ev = append(ev, "L:"+strings.Join(l, ","))
	} else {
		l, ok := verifReadList(r)
		if !ok || len(l) != 1 || !strings.HasPrefix(l[0], "status=") {
			return append(ev, "BROKEN")
		}
		ev = append(ev, "S:"+l[0][7:])
		if l[0] == "status=delayed" {
			return ev
		}
		content := ""
		for {
			d, fl, ok := verifReadPkt(r)
			if !ok {
				return append(ev, "BROKEN")
			}
			if fl {
				break
			}
			content += d
		}
		if content != "" {
			ev = append(ev, "C:"+content)
		}
		ev = append(ev, "F:")
	}
	l, ok := verifReadList(r)
	if !ok || len(l) != 1 || !strings.HasPrefix(l[0], "status=") {
		return append(ev, "BROKEN")
	}
	return append(ev, "S:"+l[0][7:])
}

func verifGitClient(toFilter io.WriteCloser, fromFilter io.Reader, finished chan<- struct{}) {
	defer close(finished)
	defer toFilter.Close()
	r := bufio.NewReader(fromFilter)
	hello := verifPkt("git-filter-client\n") + verifPkt("version=2\n") + "0000"
	hello += verifPkt("capability=clean\n") + verifPkt("capability=smudge\n")
	if verifDelayCap {
		hello += verifPkt("capability=delay\n")
	}
	io.WriteString(toFilter, hello+"0000")
	verifReadList(r) // welcome + version
	verifReadList(r) // capabilities
	for {
		req, ok := verifGit.next()
		if !ok {
			return
		}
		var b strings.Builder
		b.WriteString(verifPkt("command=" + req.cmd + "\n"))
		if req.cmd != "list_available_blobs" {
			b.WriteString(verifPkt("pathname=" + req.path + "\n"))
		}
		if req.canDelay {
			b.WriteString(verifPkt("can-delay=1\n"))
		}
		b.WriteString("0000")
		if req.cmd != "list_available_blobs" {
			for _, c := range req.chunks {
				for len(c) > 65516 {
					b.WriteString(verifPkt(c[:65516]))
					c = c[65516:]
				}
				if len(c) > 0 {
					b.WriteString(verifPkt(c))
				}
			}
			b.WriteString("0000")
		}
		io.WriteString(toFilter, b.String())
		verifGit.done(req, verifReadAnswer(r, req))
	}
}

// verifRunFilter runs the real filterCommand against the simulated Git.
func verifRunFilter(root string) {
	verifHaveReq = false
	verifCurAnswer = nil
	if verifSymbolic() {
		filterCommand(nil, nil)
		return
	}
	inR, inW, _ := os.Pipe()
	outR, outW, _ := os.Pipe()
	oldIn, oldOut := os.Stdin, os.Stdout
	finished := make(chan struct{})
	go verifGitClient(inW, outR, finished)
	os.Stdin, os.Stdout = inR, outW
	func() {
		defer func() {
			os.Stdin, os.Stdout = oldIn, oldOut
			outW.Close()
			inR.Close()
		}()
		filterCommand(nil, nil)
	}()
	<-finished
	outR.Close()
}

func verifInstallFilterStubs() {
	verifOverride("github.com/git-lfs/git-lfs/v3/git.NewFilterProcessScanner", verifScannerNew)
	verifOverride("(*github.com/git-lfs/git-lfs/v3/git.FilterProcessScanner).Init", verifScannerInit)
	verifOverride("(*github.com/git-lfs/git-lfs/v3/git.FilterProcessScanner).NegotiateCapabilities", verifScannerCaps)
	verifOverride("(*github.com/git-lfs/git-lfs/v3/git.FilterProcessScanner).Scan", verifScannerScan)
	verifOverride("(*github.com/git-lfs/git-lfs/v3/git.FilterProcessScanner).Request", verifScannerRequest)
	verifOverride("(*github.com/git-lfs/git-lfs/v3/git.FilterProcessScanner).Err", verifScannerErr)
	verifOverride("(*github.com/git-lfs/git-lfs/v3/git.FilterProcessScanner).WriteStatus", verifScannerStatus)
	verifOverride("(*github.com/git-lfs/git-lfs/v3/git.FilterProcessScanner).WriteList", verifScannerList)
	verifOverride("github.com/git-lfs/pktline.NewPktlineWriter", verifWriterNew)
	verifOverride("(*github.com/git-lfs/pktline.PktlineWriter).Write", verifWriterWrite)
	verifOverride("(*github.com/git-lfs/pktline.PktlineWriter).Flush", verifWriterFlush)
}

// verifContent: file content that is not a pointer (letters in the sniff
// window, then arbitrary bytes of any length).
func verifContent(name string) string {
	max := verifBound("content.head.max", 64, 1100)
	t1 := verifNondetString(name + ".t1")
	verifAssume(len(t1) >= 1 && len(t1) <= max)
	verifAssumeAlphabet(t1, "AZaz")
	verifAssume(verifNot(verifOr(strings.Contains(t1, "git-lfs"), verifOr(strings.Contains(t1, "git-media"), strings.Contains(t1, "hawser")))))
	if max >= 1024 && verifChoose(name+".has.t2", 2) == 1 {
		t2 := verifNondetString(name + ".t2")
		verifAssume(len(t2) >= 1 && len(t2) <= 4000000)
		verifAssume(len(t1) >= 1024)
		return t1 + t2
	}
	return t1
}

func verifSetupFilterRepo() string {
	root := verifTempDir()
	config.VerifFS = &fs.Filesystem{LFSStorageDir: root + "/lfs"}
	config.VerifTmp = root + "/lfs/tmp"
	lfs.VerifTmpDir = root + "/lfs/tmp"
	verifFSWrite(root+"/lfs/objects/.keep", "", 0644)
	verifFSWrite(root+"/lfs/tmp/.keep", "", 0644)
	verifOverride("github.com/git-lfs/git-lfs/v3/commands.Error", verifQuiet14)
	verifOverride("github.com/git-lfs/git-lfs/v3/commands.LoggedError", verifQuietLogged14)
	verifOverride("github.com/git-lfs/git-lfs/v3/tools/humanize.FormatBytes", func(n uint64) string { return "some bytes" })

	cfg = &config.Configuration{
		Git: config.EnvironmentOf(config.MapFetcher(map[string][]string{"lfs.skipdownloaderrors": {"true"}})),
		Os:  config.EnvironmentOf(config.MapFetcher(map[string][]string{})),
	}
	filterSmudgeSkip = false
	return root
}

func verifQuiet14(format string, args ...interface{})                  {}
func verifQuietLogged14(err error, format string, args ...interface{}) {}

// VerifC14_FilterLoop: for every program of clean and smudge requests (no
// delay) the long-running filter answers each request with status=success,
// the content, a flush and a final status, in that order, and the content is
// what the one-shot filters produce for the same input: clean of a file gives
// the canonical pointer of its bytes (and stores them), clean of a pointer
// and smudge of non-pointer text hand the bytes back unchanged, smudge of a
// pointer whose object is in local storage gives the object's bytes, an empty
// input gives an empty output.
func VerifC14_FilterLoop() {
	root := verifSetupFilterRepo()
	verifInstallFilterStubs()
	verifDelayCap = false
	// an object that is in local storage
	stored := verifContent("stored")
	storedOid := verifHashHex([]byte(stored))
	verifFSWrite(config.VerifFS.ObjectPathname(storedOid), stored, 0444)
	storedPtr := lfs.NewPointer(storedOid, int64(len(stored)), nil).Encoded()

	n := 1 + verifChoose("requests", verifBound("requests", 2, 3))
	verifGit = &verifGitSim{}
	var want [][]string
	known := []string{stored}
	for k := 0; k < n; k++ {
		path := []string{"a.bin", "dir/b c.bin", "c.dat"}[k]
		var r verifReq
		var exp []string
		switch verifChoose("request.kind", 5) {
		case 0: // clean a file
			content := verifContent("clean")
			for _, other := range known {
				// SHA-256 collisions between different contents are outside the model
				verifAssume(verifOr(content == other, verifHashHex([]byte(content)) != verifHashHex([]byte(other))))
			}
			known = append(known, content)
			r = verifReq{cmd: "clean", path: path, payload: content}
			exp = []string{"S:success", "C:" + lfs.NewPointer(verifHashHex([]byte(content)), int64(len(content)), nil).Encoded(), "F:", "S:success"}
		case 1: // clean what already is a pointer
			r = verifReq{cmd: "clean", path: path, payload: storedPtr}
			exp = []string{"S:success", "C:" + storedPtr, "F:", "S:success"}
		case 2: // smudge a pointer whose object is local
			r = verifReq{cmd: "smudge", path: path, payload: storedPtr}
			exp = []string{"S:success", "C:" + stored, "F:", "S:success"}
		case 3: // smudge something that is no pointer
			content := verifContent("raw")
			r = verifReq{cmd: "smudge", path: path, payload: content}
			exp = []string{"S:success", "C:" + content, "F:", "S:success"}
		case 4: // an empty file, either way
			r = verifReq{cmd: []string{"clean", "smudge"}[verifChoose("empty.cmd", 2)], path: path}
			exp = []string{"S:success", "F:", "S:success"}
		}
		// packetisation: the payload arrives in one packet, or cut after its
		// first byte, or cut after 43 bytes (inside a pointer: after its version
		// line), or - for long content - where the sniffed head ends
		if r.payload != "" {
			r.chunks = []string{r.payload}
			switch verifChoose("packets", 3) {
			case 1:
				if len(r.payload) >= 2 {
					r.chunks = []string{r.payload[:1], r.payload[1:]}
				}
			case 2:
				if len(r.payload) > 43 {
					r.chunks = []string{r.payload[:43], r.payload[43:]}
				}
			}
		}
		verifGit.initial = append(verifGit.initial, r)
		want = append(want, exp)
	}
	verifRunFilter(root)
	verifAssert(len(verifGit.log) == n, "every request is answered, and nothing else is asked")
	for k := 0; k < n; k++ {
		got := verifGit.log[k].answer
		verifAssert(len(got) == len(want[k]), "the answer is status, content, flush, status")
		for j := range want[k] {
			verifAssert(j < len(got) && got[j] == want[k][j], "in that order, with the one-shot filter's content")
		}
		verifCover("request-answered")
	}
}

var verifShortN int

// verifShort: a short non-pointer content; arbitrary letters in the thorough
// tier, distinct fixed texts in the quick tier (the delayed-checkout entry is
// about which bytes go where, not about their values).
func verifShort(name string) string {
	if verifBound("symbolic.contents", 0, 1) == 0 {
		verifShortN++
		return "content number " + strconv.Itoa(verifShortN) + " of " + name
	}
	s := verifNondetString(name)
	verifAssume(len(s) >= 1 && len(s) <= 48)
	verifAssumeAlphabet(s, "AZaz")
	verifAssume(verifNot(verifOr(strings.Contains(s, "git-lfs"), verifOr(strings.Contains(s, "git-media"), strings.Contains(s, "hawser")))))
	// a tag of its own in front: two contents are never equal, so that the
	// no-collision assumptions below hold for every model (also natively)
	verifShortN++
	return strconv.Itoa(verifShortN) + ":" + s
}

// VerifC14_Delayed: a checkout with the delay capability, against the real
// transfer queue (its goroutines, infiniteTransferBuffer, readAvailable) and a
// scripted LFS server, with Git simulated along its client grammar: a pointer
// whose object is not local is answered with status=delayed only; an object
// that is local is delivered at once; every delayed path is announced by
// list_available_blobs exactly once, its content-less retrieval returns
// exactly the object's bytes, and list_available_blobs ends with an empty
// list; the filter never blocks for good.
func VerifC14_Delayed() {
	root := verifSetupFilterRepo()
	verifInstallFilterStubs()
	verifDelayCap = true
	verifShortN = 0
	verifSchedPolicy(verifChoose("schedule.policy", 3))
	policy := verifChoose("smudge.policy", 3)
	if policy == 0 {
		verifSchedChoose(verifBound("schedule.choices", 0, 3))
	}
	local := verifShort("local.content")
	localOid := verifHashHex([]byte(local))
	verifFSWrite(config.VerifFS.ObjectPathname(localOid), local, 0444)
	remote := []string{verifShort("remote.content"), verifShort("remote.content")}
	tq.VerifServerObjects = map[string]string{}
	tq.VerifDownloaded = nil
	var remoteOid []string
	for _, c := range remote {
		o := verifHashHex([]byte(c))
		verifAssume(o != localOid)
		remoteOid = append(remoteOid, o)
		tq.VerifServerObjects[o] = c
	}
	verifAssume(verifOr(remote[0] == remote[1], remoteOid[0] != remoteOid[1])) // no SHA-256 collisions
	verifManifest = tq.VerifNewManifest()

	// an object that is neither local nor on the server (the download fails)
	gone := verifShort("gone.content")
	goneOid := verifHashHex([]byte(gone))
	verifAssume(goneOid != localOid && goneOid != remoteOid[0] && goneOid != remoteOid[1])
	gonePtr := lfs.NewPointer(goneOid, int64(len(gone)), nil).Encoded()

	// smudging switched off: for every path (--skip / GIT_LFS_SKIP_SMUDGE) or
	// for the paths lfs.fetchexclude names; the one-shot filter then leaves the
	// pointer as it is, whether or not the object is in local storage
	if policy == 1 {
		filterSmudgeSkip = true
	} else if policy == 2 {
		cfg = &config.Configuration{
			Git: config.EnvironmentOf(config.MapFetcher(map[string][]string{"lfs.skipdownloaderrors": {"true"}, "lfs.fetchexclude": {"*.dat"}})),
			Os:  config.EnvironmentOf(config.MapFetcher(map[string][]string{})),
		}
	}
	off := func(path string) bool {
		return policy == 1 || policy == 2 && strings.HasSuffix(path, ".dat")
	}

	verifGit = &verifGitSim{}
	type exp struct {
		delayed bool
		content string
	}
	expect := map[string]exp{}
	paths := []string{"a.bin", "dir/b c.bin", "c.dat", "d.bin"}
	if policy != 0 && verifChoose("path.order", 2) == 1 {
		paths = []string{"c.dat", "a.bin", "e.dat", "dir/b c.bin"}
	}
	npath := 0
	fetched := map[string]bool{} // objects an earlier checkout of this process downloaded
	mkRound := func(n int) []verifReq {
		var round []verifReq
		var asked []string
		for k := 0; k < n; k++ {
			path := paths[npath]
			npath++
			switch verifChoose("request.kind", 5) {
			case 4: // an empty file: answered at once, with no content
				round = append(round, verifReq{cmd: "smudge", path: path, canDelay: true})
				expect[path] = exp{false, ""}
			case 0: // an object the server has, not local: delayed
				j := verifChoose("remote.object", 2)
				ptr := lfs.NewPointer(remoteOid[j], int64(len(remote[j])), nil).Encoded()
				round = append(round, verifReq{cmd: "smudge", path: path, canDelay: true, payload: ptr, chunks: []string{ptr}})
				if off(path) {
					verifCover("smudge-off")
					expect[path] = exp{false, ptr}
				} else {
					expect[path] = exp{!fetched[remoteOid[j]], remote[j]}
					asked = append(asked, remoteOid[j])
				}
			case 1: // an object that is local: delivered at once
				ptr := lfs.NewPointer(localOid, int64(len(local)), nil).Encoded()
				round = append(round, verifReq{cmd: "smudge", path: path, canDelay: true, payload: ptr, chunks: []string{ptr}})
				expect[path] = exp{false, local}
				if off(path) {
					verifCover("smudge-off-local")
					expect[path] = exp{false, ptr}
				}
			case 2: // no pointer at all
				raw := verifShort("raw.content")
				round = append(round, verifReq{cmd: "smudge", path: path, canDelay: true, payload: raw, chunks: []string{raw}})
				expect[path] = exp{false, raw}
			case 3: // an object nobody has: delayed, the download fails, and (with
				// lfs.skipdownloaderrors) the file stays a pointer, as with the one-shot filter
				round = append(round, verifReq{cmd: "smudge", path: path, canDelay: true, payload: gonePtr, chunks: []string{gonePtr}})
				expect[path] = exp{!off(path), gonePtr}
			}
		}
		for _, o := range asked {
			fetched[o] = true
		}
		return round
	}
	n := 1 + verifChoose("requests", verifBound("requests", 2, 2))
	verifGit.initial = mkRound(n)
	if policy == 0 && verifChoose("second.checkout", 2) == 1 {
		// another checkout served by the same filter process
		verifGit.later = [][]verifReq{mkRound(1 + verifChoose("requests.2", verifBound("requests.2", 1, 2)))}
	}
	verifNoDeadlock("the filter answers every request of the delayed checkout")
	verifRunFilter(root)

	announced := map[string]int{}
	retrieved := map[string]int{}
	lastList := ""
	for k, x := range verifGit.log {
		r, a := x.req, x.answer
		_ = k
		switch {
		case r.canDelay: // the checkouts' own requests
			e := expect[r.path]
			if e.delayed {
				verifCover("delayed")
				verifAssert(len(a) == 1 && a[0] == "S:delayed", "a blob that must be downloaded is answered with status=delayed and nothing else")
			} else {
				verifCover("immediate")
				if e.content == "" {
					verifAssert(len(a) == 3 && a[0] == "S:success" && a[1] == "F:" && a[2] == "S:success", "an empty blob is answered at once: status, (no content,) flush, status")
				} else {
					verifAssert(len(a) == 4 && a[0] == "S:success" && a[1] == "C:"+e.content && a[2] == "F:" && a[3] == "S:success", "other blobs are answered at once: status, content, flush, status")
				}
			}
		case r.cmd == "list_available_blobs":
			verifAssert(len(a) == 2 && strings.HasPrefix(a[0], "L:") && a[1] == "S:success", "list_available_blobs answers a list and status=success")
			lastList = a[0]
			if a[0] != "L:" {
				for _, e := range strings.Split(a[0][2:], ",") {
					verifAssert(strings.HasPrefix(e, "pathname="), "the list consists of pathname= entries")
					p := e[9:]
					announced[p]++
					verifAssert(expect[p].delayed, "only delayed paths are announced")
					verifAssert(announced[p] == 1, "a delayed path is announced exactly once")
				}
			}
		case r.retrieve:
			verifCover("retrieved")
			retrieved[r.path]++
			e := expect[r.path]
			verifAssert(len(a) == 4 && a[0] == "S:success" && a[1] == "C:"+e.content && a[2] == "F:" && a[3] == "S:success", "retrieving an announced blob returns exactly the object's bytes")
		}
	}
	ndelayed := 0
	for p, e := range expect {
		if e.delayed {
			ndelayed++
			verifAssert(announced[p] == 1 && retrieved[p] == 1, "every delayed blob is announced and retrieved")
		}
	}
	if ndelayed > 0 {
		verifCover("delayed-checkout-complete")
		verifAssert(len(verifGit.delayed) == 0 && len(verifGit.later) == 0, "every delayed checkout completes")
		if lastList != "" {
			verifAssert(lastList == "L:", "the list of available blobs ends empty")
		}
	}
}
