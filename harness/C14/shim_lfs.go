package lfs

import (
	"os"

	"github.com/git-lfs/git-lfs/v3/git"

	"github.com/git-lfs/git-lfs/v3/config"
)

// VerifTmpDir is set by harnesses of other packages; lfs.TempFile is redirected here.
var VerifTmpDir string

func verifTempFileShim(cfg *config.Configuration, pattern string) (*os.File, error) {
	os.MkdirAll(VerifTmpDir, 0755)
	return os.CreateTemp(VerifTmpDir, pattern)
}

func verifRemoteRefShim(f *GitFilter) *git.Ref {
	return &git.Ref{Name: "main", Type: git.RefTypeLocalBranch}
}
