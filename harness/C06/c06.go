package tq

import (
	"sync"

	"github.com/git-lfs/git-lfs/v3/errors"
	"github.com/git-lfs/git-lfs/v3/git"
	"github.com/git-lfs/git-lfs/v3/lfshttp"
)

// verifQueue builds a queue in an arbitrary valid state for one remembered
// object "oid-a" (added dups times), with an arbitrary retry count and budget.
func verifQueue(dups int, watchers int) (*TransferQueue, chan *objectTuple, []chan *Transfer) {
	q := &TransferQueue{
		transfers: make(map[string]*objects),
		errorc:    make(chan error, 16),
		trMutex:   &sync.Mutex{},
		wait:      newAbortableWaitGroup(),
		rc:        newRetryCounter(),
	}
	ob := &objects{}
	for k := 0; k < dups; k++ {
		ob = ob.Append(&objectTuple{Name: "file-" + string(rune('a'+k)), Path: "/p", Oid: "oid-a", Size: 10})
	}
	q.transfers["oid-a"] = ob
	q.wait.Add(1) // once per distinct oid
	var ws []chan *Transfer
	for k := 0; k < watchers; k++ {
		c := make(chan *Transfer, 16)
		q.watchers = append(q.watchers, c)
		ws = append(ws, c)
	}
	return q, make(chan *objectTuple, 16), ws
}

// VerifC06_HandleResult: one step of the queue's accounting from an arbitrary
// valid state: a finished transfer attempt is either re-enqueued (and still
// pending) or terminal (pending count released exactly once); it is delivered
// to every watcher once per Add only on success; every dropped object is
// covered by a reported error; retries respect the budget (C15).
func VerifC06_HandleResult() {
	dups := 1 + verifChoose("duplicates", 2)
	nw := verifChoose("watchers", 3)
	q, retries, ws := verifQueue(dups, nw)
	maxRetries := verifNondetInt("maxretries")
	count := verifNondetInt("retry.count")
	verifAssume(maxRetries >= 0 && maxRetries <= 16 && count >= 0 && count <= 32)
	q.rc.MaxRetries = maxRetries
	q.rc.count["oid-a"] = count
	known := verifChoose("result.oid.known", 2) == 0
	oid := "oid-a"
	if !known {
		oid = "oid-unknown"
	}
	var err error
	kind := verifChoose("result.kind", 5)
	switch kind {
	case 0:
		err = nil
	case 1:
		err = errors.NewRetriableError(errors.New("temporary"))
	case 2:
		err = errors.NewRetriableLaterError(errors.New("429"), "1")
	case 3:
		err = errors.New("fatal")
	case 4:
		err = errors.NewUnprocessableEntityError(errors.New("422"))
	}
	if !known {
		verifAssume(kind != 0) // a successful result always belongs to a queued object
	}
	q.handleTransferResult(TransferResult{Transfer: &Transfer{Name: "file-a", Oid: oid, Size: 10}, Error: err}, retries)
	requeued := len(retries)
	pending := q.wait.counter
	reported := len(q.errorc)
	delivered := 0
	for _, c := range ws {
		delivered += len(c)
	}
	verifAssert(pending == 0 || pending == 1, "the pending count never goes negative")
	verifAssert(requeued <= 1, "an object is re-enqueued at most once per attempt")
	verifAssert((requeued == 1) != (pending == 0) || !known, "an attempt is either re-enqueued and still pending, or terminal and released once")
	if kind == 0 {
		verifCover("success")
		verifAssert(requeued == 0 && pending == 0 && reported == 0, "a success is terminal")
		verifAssert(delivered == nw*dups, "a success is delivered to every watcher once per time the object was added")
	} else {
		verifAssert(delivered == 0, "nothing is delivered that was not transferred")
	}
	if requeued == 1 {
		verifCover("retry")
		verifAssert(kind == 1 || kind == 2, "only retriable failures are retried")
		verifAssert(count < maxRetries, "no retry beyond the configured budget")
	}
	if known && (kind == 1 || kind == 2) && count < maxRetries {
		if requeued == 1 {
			verifCover("retried-within-budget")
		}
	}
	if requeued == 0 && kind != 0 && kind != 4 {
		verifCover("failed")
		verifAssert(reported == 1, "an object that is dropped is covered by exactly one reported error")
	}
	if kind == 4 && requeued == 0 {
		verifCover("unprocessable")
		verifAssert(q.unsupportedContentType && reported == 0, "a 422 is recorded for the content-type fallback")
	}
}

// ---- batch step: enqueueAndCollectRetriesFor with a scripted batch API

var (
	verifBatchResp *BatchResponse
	verifBatchErr  error
	verifInflight  []*Transfer
)

func verifBatchStub(m Manifest, dir Direction, remote string, remoteRef *git.Ref, objs []*Transfer) (*BatchResponse, error) {
	return verifBatchResp, verifBatchErr
}

func verifAddToAdapterStub(q *TransferQueue, e lfshttp.Endpoint, pending []*Transfer) <-chan *objectTuple {
	verifInflight = append(verifInflight, pending...)
	retries := make(chan *objectTuple)
	close(retries)
	return retries
}

func verifUseAdapterStub(q *TransferQueue, name string) {}

// VerifC06_BatchStep: one batch round from a valid state with two pending
// objects and an arbitrary batch answer: afterwards every object of the batch
// is exactly one of {handed to the adapter, re-enqueued, terminal}, the
// pending count equals the number of non-terminal objects, nothing is handed
// to the adapter twice, and the step never panics.
func VerifC06_BatchStep() {
	q := &TransferQueue{
		direction: Download,
		client:    &tqClient{},
		manifest:  &concreteManifest{},
		transfers: make(map[string]*objects),
		errorc:    make(chan error, 16),
		trMutex:   &sync.Mutex{},
		wait:      newAbortableWaitGroup(),
		rc:        newRetryCounter(),
		batchSize: 4,
	}
	oids := []string{"oid-a", "oid-b"}
	var b batch
	for _, o := range oids {
		t := &objectTuple{Name: "n-" + o, Path: "/p/" + o, Oid: o, Size: 5}
		q.transfers[o] = (&objects{}).Append(t)
		q.wait.Add(1)
		b = append(b, t)
	}
	maxRetries := verifNondetInt("maxretries")
	verifAssume(maxRetries >= 0 && maxRetries <= 8)
	q.rc.MaxRetries = maxRetries
	// retries the two objects used up in earlier rounds (a batch mixes fresh
	// objects with re-enqueued ones)
	for _, o := range oids {
		prior := verifChoose("retries.used."+o, 3)
		verifAssume(prior <= maxRetries)
		for k := 0; k < prior; k++ {
			q.rc.Increment(o)
		}
	}
	verifInflight = nil
	verifBatchResp, verifBatchErr = nil, nil
	listed := map[string]int{}
	upToDate := map[string]bool{}
	unknownListed := false
	if verifChoose("batch.call", 3) == 0 {
		// the API call itself fails
		switch verifChoose("batch.error", 3) {
		case 0:
			verifBatchErr = errors.New("fatal batch error")
		case 1:
			verifBatchErr = errors.NewRetriableError(errors.New("temporary batch error"))
		case 2:
			verifBatchErr = errors.NewRetriableLaterError(errors.New("429"), "2")
		}
		listed["oid-a"], listed["oid-b"] = 1, 1 // nothing is "omitted" when there is no answer
	} else {
		resp := &BatchResponse{TransferAdapterName: "basic"}
		n := verifChoose("entries", verifBound("entries", 3, 4))
		names := []string{"oid-a", "oid-b", "oid-unknown"}
		for k := 0; k < n; k++ {
			o := names[verifChoose("entry.oid", 3)]
			tr := &Transfer{Oid: o, Size: 5}
			switch verifChoose("entry.kind", 3) {
			case 0:
				tr.Actions = ActionSet{"download": &Action{Href: "https://example.com/" + o}}
			case 1: // no action: the server says nothing needs to be transferred
				upToDate[o] = true
			case 2:
				tr.Error = &ObjectError{Code: 404, Message: "not found"}
			}
			resp.Objects = append(resp.Objects, tr)
			listed[o]++
			if o == "oid-unknown" {
				unknownListed = true
			}
		}
		verifBatchResp = resp
	}
	omitted := listed["oid-a"] == 0 || listed["oid-b"] == 0
	twice := listed["oid-a"] > 1 || listed["oid-b"] > 1
	verifKnown("C06-F4a-batch-omits-object", omitted)
	verifKnown("C06-F4b-batch-lists-object-twice", twice)
	verifKnown("C06-F4c-batch-lists-unknown-oid", unknownListed)
	next, err := q.enqueueAndCollectRetriesFor(b)
	// collectBatches reports the returned error; per-object errors were sent already
	errReported := err != nil || len(q.errorc) > 0
	verifCover("batch-step")
	nonTerminal := 0
	for _, o := range oids {
		in := 0
		for _, t := range verifInflight {
			if t.Oid == o {
				in++
			}
		}
		re := 0
		for _, t := range next {
			if t.Oid == o {
				re++
			}
		}
		verifAssert(in <= 1, "an object is handed to the adapter at most once per batch")
		verifAssert(re <= 1 && !(in == 1 && re == 1), "an object is not both transferred and re-enqueued")
		if in+re > 0 {
			nonTerminal++
		} else if !upToDate[o] {
			verifCover("object-given-up")
			verifAssert(errReported, "an object that is neither transferred nor re-enqueued nor declared up to date by the server is covered by a reported error")
		}
	}
	verifAssert(q.wait.counter >= 0, "the pending count never goes negative")
	verifAssert(q.wait.counter == nonTerminal, "the pending count equals the number of objects still in flight or re-enqueued")
	for _, t := range next {
		verifAssert(q.rc.CountFor(t.Oid) >= 1 && q.rc.CountFor(t.Oid) <= maxRetries, "a re-enqueued object consumed retry budget and stayed within it")
	}
}
