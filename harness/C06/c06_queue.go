package tq

import (
	"strconv"
	"time"

	"github.com/git-lfs/git-lfs/v3/errors"
)

// ---- scripted server and adapter for the whole-queue harness

type verifQBatch struct{ max int }

func (b *verifQBatch) MaxRetries() int      { return b.max }
func (b *verifQBatch) SetMaxRetries(n int) { b.max = n }

var (
	verifQRound    int
	verifQAttempts map[string]int
	verifQBatches  [][]string
)

// fault script: which object misbehaves and how (everything else works)
var (
	verifQFaultOid  string
	verifQFaultKind int
	verifQCallFault int // batch calls that fail as a whole: 0 none, 1 fatal, 2 retriable once, 3 retriable always
)

const (
	verifQNoFault = iota
	verifQObjectError
	verifQNoAction
	verifQRetriableOnce
	verifQRetriableAlways
	verifQFatal
	verifQFaultKinds
)

// Batch answers every requested object exactly once: with a download action,
// with "nothing to do" (no action) or with a per-object error; or the call as
// a whole fails (fatal or retriable).
func (b *verifQBatch) Batch(remote string, bReq *batchRequest) (*BatchResponse, error) {
	verifQRound++
	var oids []string
	for _, o := range bReq.Objects {
		oids = append(oids, o.Oid)
	}
	verifQBatches = append(verifQBatches, oids)
	switch {
	case verifQCallFault == 1 && verifQRound == 1:
		return nil, errors.New("fatal batch error")
	case verifQCallFault == 2 && verifQRound == 1, verifQCallFault == 3:
		return nil, errors.NewRetriableError(errors.New("temporary batch error"))
	}
	resp := &BatchResponse{TransferAdapterName: "basic"}
	for _, o := range bReq.Objects {
		tr := &Transfer{Oid: o.Oid, Size: o.Size}
		switch {
		case o.Oid == verifQFaultOid && verifQFaultKind == verifQObjectError:
			tr.Error = &ObjectError{Code: 404, Message: "not found"}
		case o.Oid == verifQFaultOid && verifQFaultKind == verifQNoAction:
			// nothing to transfer
		default:
			tr.Actions = ActionSet{"download": &Action{Href: "https://example.com/" + o.Oid}}
		}
		resp.Objects = append(resp.Objects, tr)
	}
	return resp, nil
}

// a deterministic clock for the queue (timing itself is C15's subject): every
// reading is `step` later than the one before, sleeping advances it
var (
	verifQNowNs int64
	verifQStep  int64
)

func verifQNow() time.Time {
	verifQNowNs += verifQStep
	return time.Unix(1700000000, verifQNowNs)
}

func verifQUntil(t time.Time) time.Duration { return t.Sub(verifQNow()) }

func verifQSleep(d time.Duration) {
	if d > 0 {
		verifQNowNs += int64(d)
	}
}

type verifQAdapter struct{}

func (a *verifQAdapter) Name() string                                          { return "basic" }
func (a *verifQAdapter) Direction() Direction                                  { return Download }
func (a *verifQAdapter) Begin(cfg AdapterConfig, cb ProgressCallback) error { return nil }
func (a *verifQAdapter) End()                                                  {}

// Add "transfers" each object at once: success, a retriable failure or a
// fatal failure, chosen per object and attempt.
func (a *verifQAdapter) Add(ts ...*Transfer) <-chan TransferResult {
	results := make(chan TransferResult, len(ts))
	for _, t := range ts {
		verifQAttempts[t.Oid]++
		var err error
		if t.Oid == verifQFaultOid {
			switch {
			case verifQFaultKind == verifQRetriableOnce && verifQAttempts[t.Oid] == 1, verifQFaultKind == verifQRetriableAlways:
				err = errors.NewRetriableError(errors.New("connection reset"))
			case verifQFaultKind == verifQFatal:
				err = errors.New("fatal transfer error")
			}
		}
		results <- TransferResult{Transfer: t, Error: err}
	}
	close(results)
	return results
}

// VerifC06_QueueRun: the real queue (NewTransferQueue, Add, collectBatches,
// enqueueAndCollectRetriesFor, addToAdapter, handleTransferResult, Watch,
// Wait, errorCollector with their goroutines and channels) against a scripted
// server and adapter, under the schedules the coroutine scheduler explores:
// Wait returns; every object that was added is delivered to the watcher once
// per Add if its transfer succeeded and is otherwise covered by a reported
// error (or needed no transfer); no object is attempted more often than the
// retry budget allows; no batch names an object twice.
func VerifC06_QueueRun() {
	verifSchedPolicy(verifChoose("schedule.policy", 3))
	verifSchedChoose(verifBound("schedule.choices", 0, 3))
	verifOverride("time.Now", verifQNow)
	verifOverride("time.Sleep", verifQSleep)
	verifOverride("time.Until", verifQUntil)
	verifQNowNs = 0
	verifQStep = []int64{1000000, 3600000000000}[verifChoose("clock.step", 2)] // 1 ms or 1 h between clock readings
	verifQRound = 0
	verifQAttempts = map[string]int{}
	verifQBatches = nil
	verifQFaultOid = []string{"", "oid-a", "oid-b"}[verifChoose("fault.object", 3)]
	verifQFaultKind = verifQNoFault
	if verifQFaultOid != "" {
		verifQFaultKind = 1 + verifChoose("fault.kind", verifQFaultKinds-1)
	}
	verifQCallFault = verifChoose("batch.call.fault", 4)
	maxRetries := 1 + verifChoose("maxretries", verifBound("maxretries", 1, 2))
	m := &concreteManifest{
		maxRetries:           maxRetries,
		concurrentTransfers:  1,
		batchClientAdapter:   &verifQBatch{},
		downloadAdapterFuncs: map[string]NewAdapterFunc{"basic": func(name string, dir Direction) Adapter { return &verifQAdapter{} }},
		uploadAdapterFuncs:   map[string]NewAdapterFunc{},
	}
	q := NewTransferQueue(Download, m, "origin", WithBatchSize(1+verifChoose("batch.size", 2)))
	watch := q.Watch()
	delivered := map[string]int{}
	watched := make(chan struct{})
	slowWatcher := verifChoose("watcher.slow", 2) == 1
	go func() {
		for {
			if slowWatcher {
				verifIdle() // reads only when everybody else is stuck
			}
			t, ok := <-watch
			if !ok {
				break
			}
			delivered[t.Oid+"/"+t.Name]++
		}
		close(watched)
	}()
	verifNoDeadlock("Add and Wait return")
	n := 1 + verifChoose("adds", verifBound("adds", 3, 3))
	added := map[string]int{}
	names := map[string][]string{}
	for k := 0; k < n; k++ {
		oid := []string{"oid-a", "oid-b"}[verifChoose("add.oid", 2)]
		name := "file-" + strconv.Itoa(k)
		if k > 0 && verifChoose("pause.before.add", 2) == 1 {
			verifGosched() // the queue gets ahead before the next Add
		}
		q.Add(name, "/p/"+oid, oid, 5, false, nil)
		added[oid]++
		names[oid] = append(names[oid], name)
	}
	q.Wait()
	<-watched
	verifCover("wait-returned")
	errs := q.Errors()
	for oid, cnt := range added {
		got := 0
		for _, nm := range names[oid] {
			c := delivered[oid+"/"+nm]
			verifAssert(c <= 1, "no Add is reported to a watcher twice")
			got += c
		}
		verifAssert(got == 0 || got == cnt, "an object's transfer is reported for every Add of it or for none")
		verifAssert(verifQAttempts[oid] <= 1+maxRetries, "an object is attempted at most 1 + lfs.transfer.maxretries times")
		if got == cnt {
			verifCover("delivered")
			verifAssert(verifQAttempts[oid] >= 1, "only a transferred object is delivered")
		}
	}
	for _, b := range verifQBatches {
		seen := map[string]bool{}
		for _, o := range b {
			verifAssert(!seen[o], "a batch request never names an object twice")
			seen[o] = true
		}
	}
	_ = errs
}
