package tq

import (
	"encoding/json"
	"io"
	"net/http"
	"strings"

	"github.com/git-lfs/git-lfs/v3/creds"
	"github.com/git-lfs/git-lfs/v3/git"
	"github.com/git-lfs/git-lfs/v3/lfsapi"
	"github.com/git-lfs/git-lfs/v3/lfshttp"
)

const verifLFSMedia = "application/vnd.git-lfs+json"

// verifEndpoints: every remote resolves to one https API endpoint
type verifEndpoints struct{ url string }

func (f verifEndpoints) NewEndpointFromCloneURL(operation, rawurl string) lfshttp.Endpoint {
	return lfshttp.Endpoint{Url: f.url, Operation: operation}
}
func (f verifEndpoints) NewEndpoint(operation, rawurl string) lfshttp.Endpoint {
	return lfshttp.Endpoint{Url: f.url, Operation: operation}
}
func (f verifEndpoints) Endpoint(operation, remote string) lfshttp.Endpoint {
	return lfshttp.Endpoint{Url: f.url, Operation: operation}
}
func (f verifEndpoints) RemoteEndpoint(operation, remote string) lfshttp.Endpoint {
	return lfshttp.Endpoint{Url: f.url, Operation: operation}
}
func (f verifEndpoints) GitRemoteURL(remote string, forpush bool) string { return f.url }
func (f verifEndpoints) AccessFor(rawurl string) creds.Access {
	return creds.NewAccess(creds.NoneAccess, rawurl)
}
func (f verifEndpoints) SetAccess(access creds.Access) {}
func (f verifEndpoints) GitProtocol() string           { return "https" }

// what the scripted server saw
type verifSeen struct {
	method, url, accept, ctype, body string
	header                           http.Header
}

var verifSeenReqs []verifSeen

func verifRecord(req *http.Request) {
	s := verifSeen{method: req.Method, url: req.URL.String(), accept: req.Header.Get("Accept"), ctype: req.Header.Get("Content-Type"), header: req.Header}
	if req.Body != nil {
		by, _ := io.ReadAll(req.Body)
		s.body = string(by)
	}
	verifSeenReqs = append(verifSeenReqs, s)
}

func verifJSONResponse(status int, body string) *http.Response {
	res := &http.Response{StatusCode: status, Header: http.Header{}, Body: io.NopCloser(strings.NewReader(body))}
	res.Header.Set("Content-Type", verifLFSMedia)
	return res
}

func verifRef() *git.Ref {
	switch verifChoose("ref.kind", 4) {
	case 0:
		return nil
	case 1:
		name := verifNondetString("ref.name")
		verifAssume(len(name) >= 1 && len(name) <= 40)
		return &git.Ref{Name: name, Type: git.RefTypeLocalBranch}
	case 2:
		name := verifNondetString("ref.name")
		verifAssume(len(name) >= 1 && len(name) <= 40)
		return &git.Ref{Name: name, Type: git.RefTypeLocalTag}
	}
	name := verifNondetString("ref.name")
	verifAssume(len(name) >= 1 && len(name) <= 40)
	return &git.Ref{Name: name, Type: git.RefTypeOther}
}

func verifAdapters(kind int) map[string]NewAdapterFunc {
	mk := func(name string, dir Direction) Adapter { return nil }
	switch kind {
	case 0:
		return map[string]NewAdapterFunc{"basic": mk}
	case 1:
		return map[string]NewAdapterFunc{"basic": mk, "tus": mk}
	case 2:
		return map[string]NewAdapterFunc{"basic": mk, "ssh": mk, "custom-agent": mk}
	}
	return map[string]NewAdapterFunc{}
}

// VerifC18_BatchRequest: the batch request git-lfs sends for any set of
// objects, any ref, any adapter configuration validates against the
// published request schema, carries the LFS media type headers, names exactly
// the objects the caller asked about with their (non-negative) sizes; and a
// batch response naming an unsupported hash algorithm is rejected.
func VerifC18_BatchRequest() {
	verifSeenReqs = nil
	n := 1 + verifChoose("objects", verifBound("objects.max", 2, 4))
	var objects []*Transfer
	for k := 0; k < n; k++ {
		oid := verifNondetString("oid")
		verifAssumeAlphabet(oid, "09af")
		verifAssume(len(oid) == 64)
		size := verifNondetInt64("size")
		verifAssume(size >= 0)
		objects = append(objects, &Transfer{Oid: oid, Size: size, Missing: verifNondetBool("missing")})
	}
	dir := []Direction{Download, Upload}[verifChoose("direction", 2)]
	ref := verifRef()
	api := lfsapi.VerifNewClient(verifEndpoints{url: "https://lfs.example.com/repo.git/info/lfs"})
	m := &concreteManifest{
		maxRetries:           verifChoose("max.retries", 3),
		basicTransfersOnly:   verifChoose("basic.only", 2) == 1,
		downloadAdapterFuncs: verifAdapters(verifChoose("adapters", 4)),
		batchClientAdapter:   &tqClient{Client: api, maxRetries: 1},
	}
	m.uploadAdapterFuncs = m.downloadAdapterFuncs

	// the server's answer: any status, any hash algorithm, the requested
	// objects echoed with a download/upload action each
	status := []int{200, 200, 404, 500}[verifChoose("status", 4)]
	hash := ""
	switch verifChoose("hash.kind", 3) {
	case 1:
		hash = "sha256"
	case 2:
		hash = verifNondetString("hash.algo")
		verifAssumeAlphabet(hash, "az09--")
		verifAssume(len(hash) >= 1 && len(hash) <= 12)
	}
	resBytes, _ := json.Marshal(&verifBatchRes{Transfer: "basic", Objects: []*verifResObj{}, HashAlgo: hash})
	resBody := string(resBytes)
	lfsapi.VerifAPIAnswer = func(remote string, req *http.Request) (*http.Response, error) {
		verifRecord(req)
		return verifJSONResponse(status, resBody), nil
	}

	bRes, err := Batch(m, dir, "origin", ref, objects)

	verifAssert(len(verifSeenReqs) == 1, "one batch request is sent")
	seen := verifSeenReqs[0]
	verifCover("batch-request-sent")
	verifAssert(seen.method == "POST" && seen.url == "https://lfs.example.com/repo.git/info/lfs/objects/batch", "POST to <endpoint>/objects/batch")
	verifAssert(seen.accept == verifLFSMedia, "Accept is the LFS media type")
	verifAssert(seen.ctype == verifLFSMedia || strings.HasPrefix(seen.ctype, verifLFSMedia+";"), "Content-Type is the LFS media type")
	verifAssert(verifJSONValid(seen.body, "docs/api/schemas/http-batch-request-schema.json"), "the batch request validates against the published schema")
	op := "download"
	if dir == Upload {
		op = "upload"
	}
	verifAssert(verifJSONString(seen.body, "operation") == op, "operation names the direction")
	verifAssert(verifJSONLen(seen.body, "objects") == n, "the request names as many objects as the caller asked about")
	for k := 0; k < n; k++ {
		ks := string(rune('0' + k))
		verifAssert(verifJSONString(seen.body, "objects."+ks+".oid") == objects[k].Oid, "the request names the caller's object ids")
		verifAssert(verifJSONInt(seen.body, "objects."+ks+".size") == objects[k].Size, "the request carries the caller's sizes")
		verifAssert(verifJSONInt(seen.body, "objects."+ks+".size") >= 0, "sizes are not negative")
	}
	verifAssert(verifJSONString(seen.body, "hash_algo") == "sha256", "the request announces sha256")
	if ref != nil {
		verifAssert(verifJSONKind(seen.body, "ref.name") == "string", "a ref is sent with its name")
		verifAssert(verifJSONString(seen.body, "ref.name") == ref.Refspec(), "the ref name is the fully qualified ref")
	}
	if k := verifJSONKind(seen.body, "transfers"); k != "absent" {
		verifAssert(k == "array", "transfers is a list")
		for j := 0; j < verifJSONLen(seen.body, "transfers"); j++ {
			verifAssert(verifJSONKind(seen.body, "transfers."+string(rune('0'+j))) == "string", "transfers lists adapter names")
		}
	}

	// response handling
	if hash != "" && hash != "sha256" {
		verifCover("unsupported-hash-algo")
		verifAssert(err != nil, "a response naming an unsupported hash algorithm is rejected")
		return
	}
	if status != 200 {
		verifAssert(err != nil && bRes == nil, "a non-200 batch response is an error")
		return
	}
	verifCover("batch-accepted")
	verifAssert(err == nil && bRes != nil, "a well-formed sha256 batch response is accepted")
}

// the server's side of the wire format, independent of the client's structs
type verifResAction struct {
	Href      string            `json:"href"`
	Header    map[string]string `json:"header,omitempty"`
	ExpiresIn int               `json:"expires_in,omitempty"`
}

type verifResError struct {
	Code    int    `json:"code"`
	Message string `json:"message"`
}

type verifResObj struct {
	Oid           string                     `json:"oid"`
	Size          int64                      `json:"size"`
	Authenticated bool                       `json:"authenticated,omitempty"`
	Actions       map[string]*verifResAction `json:"actions,omitempty"`
	Error         *verifResError             `json:"error,omitempty"`
}

type verifBatchRes struct {
	Transfer string         `json:"transfer,omitempty"`
	Objects  []*verifResObj `json:"objects"`
	HashAlgo string         `json:"hash_algo,omitempty"`
}

func verifAction() (*Action, string, []string, []string) {
	host := verifNondetString("href.host")
	verifAssume(len(host) >= 1 && len(host) <= 12)
	verifAssumeAlphabet(host, "az09..--")
	path := verifNondetString("href.path")
	verifAssume(len(path) <= 16)
	verifAssumeAlphabet(path, "az09//--")
	scheme := []string{"https", "http"}[verifChoose("href.scheme", 2)]
	href := verifURL(scheme, host, "/"+path)
	names := [][]string{{}, {"Authorization"}, {"Authorization", "X-Request-Id"}, {"Content-Type"}}[verifChoose("action.headers", 4)]
	var vals []string
	rel := &Action{Href: href}
	if len(names) > 0 {
		rel.Header = map[string]string{}
	}
	for _, n := range names {
		v := verifNondetString("header.value")
		verifAssume(len(v) >= 1 && len(v) <= 16)
		verifAssumeAlphabet(v, "azAZ09  ==//")
		rel.Header[n] = v
		vals = append(vals, v)
	}
	return rel, href, names, vals
}

// VerifC18_ActionUse: a transfer request is built from a batch action with the
// caller's method, exactly the action's URL and exactly the action's headers.
func VerifC18_ActionUse() {
	rel, href, names, vals := verifAction()
	api := lfsapi.VerifNewClient(verifEndpoints{url: "https://lfs.example.com/repo.git/info/lfs"})
	dir := []Direction{Download, Upload}[verifChoose("direction", 2)]
	a := &adapterBase{apiClient: api, direction: dir, remote: "origin"}
	method := []string{"GET", "PUT", "HEAD", "PATCH"}[verifChoose("method", 4)]
	req, err := a.newHTTPRequest(method, rel)
	verifAssert(err == nil && req != nil, "an http(s) action yields a request")
	verifCover("action-request")
	verifAssert(req.Method == method, "the request uses the caller's method")
	verifAssert(req.URL.String() == href, "the request goes to the action's href")
	for k, n := range names {
		verifAssert(req.Header.Get(n) == vals[k], "every action header is sent with its value")
	}
	verifAssert(len(req.Header) == len(names), "no header the action did not offer is added")
}

// VerifC18_VerifyRequest: the verify call after an upload is a POST to the
// verify action's href with the LFS media types, the action's headers and a
// body naming exactly the uploaded object and its size.
func VerifC18_VerifyRequest() {
	verifSeenReqs = nil
	rel, href, names, vals := verifAction()
	oid := verifNondetString("oid")
	verifAssumeAlphabet(oid, "09af")
	verifAssume(len(oid) == 64)
	size := verifNondetInt64("size")
	verifAssume(size >= 0)
	t := &Transfer{Oid: oid, Size: size, Authenticated: verifNondetBool("authenticated")}
	hasVerify := verifChoose("has.verify", 2) == 1
	if hasVerify {
		t.Actions = ActionSet{"verify": rel}
	}
	api := lfsapi.VerifNewClient(verifEndpoints{url: "https://lfs.example.com/repo.git/info/lfs"})
	lfsapi.VerifAPIAnswer = func(remote string, req *http.Request) (*http.Response, error) {
		verifRecord(req)
		return verifJSONResponse(200, "{}"), nil
	}
	err := verifyUpload(api, "origin", t)
	verifAssert(err == nil, "verification succeeds when the server answers 200")
	if !hasVerify {
		verifAssert(len(verifSeenReqs) == 0, "no verify request without a verify action")
		return
	}
	verifCover("verify-request")
	verifAssert(len(verifSeenReqs) == 1, "one verify request is sent")
	seen := verifSeenReqs[0]
	verifAssert(seen.method == "POST" && seen.url == href, "POST to the verify action's href")
	verifAssert(seen.accept == verifLFSMedia, "Accept is the LFS media type")
	ctype := verifLFSMedia
	for k, n := range names {
		if n == "Content-Type" {
			ctype = vals[k] // the action's headers win
		}
		verifAssert(seen.header.Get(n) == vals[k], "every verify action header is sent with its value")
	}
	verifAssert(seen.ctype == ctype, "Content-Type is the LFS media type unless the action overrides it")
	verifAssert(verifJSONKind(seen.body, "") == "object" && verifJSONLen(seen.body, "") == 2, "the verify body has exactly oid and size")
	verifAssert(verifJSONString(seen.body, "oid") == oid, "the verify body names the uploaded object")
	verifAssert(verifJSONKind(seen.body, "size") == "number" && verifJSONInt(seen.body, "size") == size, "the verify body carries its size")
}

var verifHTTPSeen []*http.Request

func verifDoHTTPStub(a *adapterBase, t *Transfer, req *http.Request) (*http.Response, error) {
	verifHTTPSeen = append(verifHTTPSeen, req)
	return &http.Response{StatusCode: 200, Header: http.Header{}, Body: io.NopCloser(strings.NewReader(""))}, nil
}

// VerifC18_BasicUpload: the PUT of a basic upload goes to the upload action's
// href and carries every header the action offered with the offered value
// (a Content-Type offered by the server is never replaced, whatever
// lfs.contenttype says); without an offered Content-Type one is added, and it
// is application/octet-stream when detection is switched off.
func VerifC18_BasicUpload() {
	verifHTTPSeen = nil
	root := verifTempDir()
	content := "hello, object\n"
	verifFSWrite(root+"/object.bin", content, 0644)
	href := "https://storage.example.com/upload/abc"
	// (servers spell header names as they like: lower case is as good as canonical case)
	names := [][]string{{}, {"Authorization"}, {"Content-Type"}, {"Content-Type", "X-Amz-Meta"}, {"Transfer-Encoding"}, {"content-type"}, {"transfer-encoding", "x-amz-meta"}}[verifChoose("action.headers", 7)]
	rel := &Action{Href: href}
	var vals []string
	if len(names) > 0 {
		rel.Header = map[string]string{}
	}
	for _, n := range names {
		v := verifNondetString("header.value")
		verifAssume(len(v) >= 1 && len(v) <= 16)
		verifAssumeAlphabet(v, "azAZ09//--")
		if http.CanonicalHeaderKey(n) == "Transfer-Encoding" && verifChoose("chunked", 2) == 1 {
			v = "chunked"
		}
		rel.Header[n] = v
		vals = append(vals, v)
	}
	gitcfg := []map[string][]string{
		{},
		{"lfs.contenttype": {"false"}},
		{"lfs.https://storage.example.com/.contenttype": {"false"}},
		{"lfs.contenttype": {"true"}},
	}[verifChoose("contenttype.config", 4)]
	api := lfsapi.VerifNewClientGit(verifEndpoints{url: "https://lfs.example.com/repo.git/info/lfs"}, gitcfg)
	a := &basicUploadAdapter{newAdapterBase(nil, BasicAdapterName, Upload, nil)}
	a.apiClient = api
	a.remote = "origin"
	t := &Transfer{Oid: verifHashHex([]byte(content)), Size: int64(len(content)), Path: root + "/object.bin", Name: "object.bin", Actions: ActionSet{"upload": rel}}
	err := a.DoTransfer(nil, t, nil, nil)
	verifAssert(err == nil, "the upload succeeds when the server answers 200")
	verifAssert(len(verifHTTPSeen) == 1, "one PUT is sent")
	verifCover("upload-request")
	req := verifHTTPSeen[0]
	verifAssert(req.Method == "PUT" && req.URL.String() == href, "PUT to the upload action's href")
	offeredCT := ""
	for k, n := range names {
		verifAssert(req.Header.Get(n) == vals[k], "every offered header is sent with the offered value")
		if http.CanonicalHeaderKey(n) == "Content-Type" {
			offeredCT = vals[k]
		}
	}
	nCT := 0
	for k, vs := range req.Header {
		if http.CanonicalHeaderKey(k) == "Content-Type" {
			nCT += len(vs)
		}
	}
	verifAssert(nCT == 1, "the request carries exactly one Content-Type, however the offered header name is spelled")
	if offeredCT == "" {
		verifAssert(req.Header.Get("Content-Type") != "", "a Content-Type is added when the action offers none")
		_, off1 := gitcfg["lfs.contenttype"]
		_, off2 := gitcfg["lfs.https://storage.example.com/.contenttype"]
		if (off1 && gitcfg["lfs.contenttype"][0] == "false") || off2 {
			verifAssert(req.Header.Get("Content-Type") == "application/octet-stream", "with detection off the generic type is used")
		}
	}
	if req.Header.Get("Transfer-Encoding") == "chunked" {
		verifCover("chunked")
	} else {
		verifAssert(req.Header.Get("Content-Length") == "14" && req.ContentLength == 14, "Content-Length is the object's size")
	}
}

// VerifC18_CorruptedBatchResponse: single-field corruptions of an otherwise
// valid batch response: a hash_algo member that is not the string "sha256"
// (another string, or a value of another JSON type: array, object, number,
// boolean) is never acted upon - the batch call fails; a response that is not
// JSON at all fails too.
func VerifC18_CorruptedBatchResponse() {
	verifSeenReqs = nil
	api := lfsapi.VerifNewClient(verifEndpoints{url: "https://lfs.example.com/repo.git/info/lfs"})
	m := &concreteManifest{maxRetries: 1, downloadAdapterFuncs: verifAdapters(0), batchClientAdapter: &tqClient{Client: api, maxRetries: 1}}
	m.uploadAdapterFuncs = m.downloadAdapterFuncs
	oid := "98ea6e4f216f2fb4b69fff9b3a44842c38686ca685f3f55dc48c5d3fb1107be4"
	objects := []*Transfer{{Oid: oid, Size: 12}}
	good := `{"transfer":"basic","objects":[{"oid":"` + oid + `","size":12,"actions":{"download":{"href":"https://lfs.example.com/objects/` + oid + `"}}}]`
	kind := verifChoose("corruption", 7)
	body := good + []string{
		`}`,                               // 0: no hash_algo at all: fine
		`,"hash_algo":"sha256"}`,          // 1: fine
		`,"hash_algo":"sha512"}`,          // 2: unsupported
		`,"hash_algo":["sha512"]}`,        // 3: wrong JSON type
		`,"hash_algo":{"name":"sha512"}}`, // 4
		`,"hash_algo":512}`,               // 5
		`,"hash_algo":true}`,              // 6
	}[kind]
	lfsapi.VerifAPIAnswer = func(remote string, req *http.Request) (*http.Response, error) {
		verifRecord(req)
		r := verifJSONResponse(200, body)
		r.Request = req // a real response names its request (error messages use it)
		return r, nil
	}
	bRes, err := Batch(m, Download, "origin", verifRef(), objects)
	if kind <= 1 {
		verifCover("valid-response")
		verifAssert(err == nil && bRes != nil && len(bRes.Objects) == 1, "a valid response is accepted")
		return
	}
	verifCover("corrupted-hash-algo")
	verifAssert(err != nil, "a response whose hash_algo is anything but the string sha256 is rejected, not acted upon")
}
