package lfshttp

import "github.com/git-lfs/git-lfs/v3/config"

// VerifNewClient: an HTTP client with an empty Git configuration.
func VerifNewClient() *Client {
	return &Client{gitEnv: config.EnvironmentOf(config.MapFetcher(map[string][]string{}))}
}

// no SSH in the C18 harnesses: the endpoint is a plain https URL, so
// git-lfs-authenticate contributes neither an href nor headers
func verifSSHResolveStub(c *Client, e Endpoint, method string) (*sshAuthResponse, error) {
	return &sshAuthResponse{}, nil
}

// VerifNewClientGit: an HTTP client with the given Git configuration.
func VerifNewClientGit(gitcfg map[string][]string) *Client {
	return &Client{gitEnv: config.EnvironmentOf(config.MapFetcher(gitcfg))}
}
