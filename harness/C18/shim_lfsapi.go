package lfsapi

import (
	"net/http"

	"github.com/git-lfs/git-lfs/v3/creds"
	"github.com/git-lfs/git-lfs/v3/lfshttp"
)

// VerifAPIAnswer is the scripted server of the C18 harnesses: every request
// that would go out over the network is handed to it instead.
var VerifAPIAnswer func(remote string, req *http.Request) (*http.Response, error)

// VerifNewClient builds an API client around the given endpoint finder
// without reading any configuration.
func VerifNewClient(ef EndpointFinder) *Client {
	return &Client{Endpoints: ef, client: lfshttp.VerifNewClient()}
}

// VerifNewClientGit: as VerifNewClient, with the given Git configuration.
func VerifNewClientGit(ef EndpointFinder, gitcfg map[string][]string) *Client {
	return &Client{Endpoints: ef, client: lfshttp.VerifNewClientGit(gitcfg)}
}

func verifDoWithAuthStub(c *Client, remote string, access creds.Access, req *http.Request) (*http.Response, error) {
	return VerifAPIAnswer(remote, req)
}

func verifDoStub(c *Client, req *http.Request) (*http.Response, error) {
	return VerifAPIAnswer("", req)
}

func verifLogRequestStub(c *Client, r *http.Request, reqKey string) *http.Request { return r }
