package locking

import (
	"encoding/json"
	"io"
	"net/http"
	"net/url"
	"strings"

	"github.com/git-lfs/git-lfs/v3/creds"
	"github.com/git-lfs/git-lfs/v3/git"
	"github.com/git-lfs/git-lfs/v3/lfsapi"
	"github.com/git-lfs/git-lfs/v3/lfshttp"
)

const verifLFSMedia = "application/vnd.git-lfs+json"
const verifAPI = "https://lfs.example.com/repo.git/info/lfs"

type verifEndpoints struct{ url string }

func (f verifEndpoints) NewEndpointFromCloneURL(operation, rawurl string) lfshttp.Endpoint {
	return lfshttp.Endpoint{Url: f.url, Operation: operation}
}
func (f verifEndpoints) NewEndpoint(operation, rawurl string) lfshttp.Endpoint {
	return lfshttp.Endpoint{Url: f.url, Operation: operation}
}
func (f verifEndpoints) Endpoint(operation, remote string) lfshttp.Endpoint {
	return lfshttp.Endpoint{Url: f.url, Operation: operation}
}
func (f verifEndpoints) RemoteEndpoint(operation, remote string) lfshttp.Endpoint {
	return lfshttp.Endpoint{Url: f.url, Operation: operation}
}
func (f verifEndpoints) GitRemoteURL(remote string, forpush bool) string { return f.url }
func (f verifEndpoints) AccessFor(rawurl string) creds.Access {
	return creds.NewAccess(creds.NoneAccess, rawurl)
}
func (f verifEndpoints) SetAccess(access creds.Access) {}
func (f verifEndpoints) GitProtocol() string           { return "https" }

type verifSeen struct {
	method, url, accept, ctype, body string
}

var verifSeenReqs []verifSeen

func verifRecord(req *http.Request) {
	s := verifSeen{method: req.Method, url: req.URL.String(), accept: req.Header.Get("Accept"), ctype: req.Header.Get("Content-Type")}
	if req.Body != nil {
		by, _ := io.ReadAll(req.Body)
		s.body = string(by)
	}
	verifSeenReqs = append(verifSeenReqs, s)
}

func verifJSONResponse(status int, body string) *http.Response {
	res := &http.Response{StatusCode: status, Header: http.Header{}, Body: io.NopCloser(strings.NewReader(body))}
	res.Header.Set("Content-Type", verifLFSMedia)
	return res
}

// the remote ref of a lock client is never nil in git-lfs (it comes from
// RefUpdate.RemoteRef()); its name is a non-empty Git ref name
func verifRef() *git.Ref {
	name := verifNondetString("ref.name")
	verifAssume(len(name) >= 1 && len(name) <= 40)
	switch verifChoose("ref.kind", 3) {
	case 0:
		return &git.Ref{Name: name, Type: git.RefTypeLocalBranch}
	case 1:
		return &git.Ref{Name: name, Type: git.RefTypeHEAD}
	}
	return &git.Ref{Name: name, Type: git.RefTypeOther}
}

func verifClient() *Client {
	api := lfsapi.VerifNewClient(verifEndpoints{url: verifAPI})
	return &Client{Remote: "origin", RemoteRef: verifRef(), client: &httpLockClient{Client: api}, cache: &nilLockCacher{}}
}

func verifMediaOK(s verifSeen) bool {
	return s.accept == verifLFSMedia && (s.ctype == verifLFSMedia || strings.HasPrefix(s.ctype, verifLFSMedia+";"))
}

type verifMessage struct {
	Message string `json:"message"`
}

// VerifC18_LockRequest: the lock creation request for any path (including
// names that need JSON escaping) and any ref validates against the published
// schema, is a POST to <endpoint>/locks with the LFS media types and names
// exactly the caller's path and ref.
func VerifC18_LockRequest() {
	verifSeenReqs = nil
	c := verifClient()
	path := verifNondetString("path")
	verifAssume(len(path) >= 1 && len(path) <= 40)
	answer, _ := json.Marshal(&verifMessage{Message: "already locked"})
	lfsapi.VerifAPIAnswer = func(remote string, req *http.Request) (*http.Response, error) {
		verifRecord(req)
		return verifJSONResponse(409, string(answer)), nil
	}
	_, err := c.LockFile(path)
	verifAssert(err != nil, "a server message is reported as an error")
	verifAssert(len(verifSeenReqs) == 1, "one lock request is sent")
	verifCover("lock-request")
	seen := verifSeenReqs[0]
	verifAssert(seen.method == "POST" && seen.url == verifAPI+"/locks", "POST to <endpoint>/locks")
	verifAssert(verifMediaOK(seen), "Accept and Content-Type are the LFS media type")
	verifAssert(verifJSONValid(seen.body, "docs/api/schemas/http-lock-create-request-schema.json"), "the lock request validates against the published schema")
	verifAssert(verifJSONString(seen.body, "path") == path, "the request names the caller's path")
	verifAssert(verifJSONString(seen.body, "ref.name") == c.RemoteRef.Refspec(), "the request names the fully qualified ref")
}

// VerifC18_UnlockRequest: the unlock request validates against the published
// schema, is a POST to <endpoint>/locks/<id>/unlock and carries force and ref.
func VerifC18_UnlockRequest() {
	verifSeenReqs = nil
	c := verifClient()
	id := verifNondetString("lock.id")
	verifAssume(len(id) >= 1 && len(id) <= 24)
	verifAssumeAlphabet(id, "az09--")
	force := verifNondetBool("force")
	answer, _ := json.Marshal(&verifMessage{Message: "not yours"})
	lfsapi.VerifAPIAnswer = func(remote string, req *http.Request) (*http.Response, error) {
		verifRecord(req)
		return verifJSONResponse(403, string(answer)), nil
	}
	err := c.UnlockFileById(id, force)
	verifAssert(err != nil, "a server message is reported as an error")
	verifAssert(len(verifSeenReqs) == 1, "one unlock request is sent")
	verifCover("unlock-request")
	seen := verifSeenReqs[0]
	verifAssert(seen.method == "POST" && seen.url == verifAPI+"/locks/"+id+"/unlock", "POST to <endpoint>/locks/<id>/unlock")
	verifAssert(verifMediaOK(seen), "Accept and Content-Type are the LFS media type")
	verifAssert(verifJSONValid(seen.body, "docs/api/schemas/http-lock-delete-request-schema.json"), "the unlock request validates against the published schema")
	verifAssert(verifJSONKind(seen.body, "force") == "boolean" && verifJSONBool(seen.body, "force") == force, "force is passed on as given")
	verifAssert(verifJSONString(seen.body, "ref.name") == c.RemoteRef.Refspec(), "the request names the fully qualified ref")
}

type verifLockList struct {
	Ours       []Lock `json:"ours"`
	Theirs     []Lock `json:"theirs"`
	NextCursor string `json:"next_cursor,omitempty"`
}

// VerifC18_VerifyLocksRequest: lock verification POSTs {ref, cursor, limit} to
// <endpoint>/locks/verify; the follow-up request carries exactly the cursor
// the server handed out, and the caller's limit.
func VerifC18_VerifyLocksRequest() {
	verifSeenReqs = nil
	c := verifClient()
	limit := verifNondetInt("limit")
	verifAssume(limit >= 1 && limit <= 100)
	cursor := verifNondetString("next.cursor")
	verifAssume(len(cursor) >= 1 && len(cursor) <= 16)
	verifAssumeAlphabet(cursor, "azAZ09")
	page1, _ := json.Marshal(&verifLockList{Ours: []Lock{}, Theirs: []Lock{}, NextCursor: cursor})
	page2, _ := json.Marshal(&verifLockList{Ours: []Lock{}, Theirs: []Lock{}})
	lfsapi.VerifAPIAnswer = func(remote string, req *http.Request) (*http.Response, error) {
		verifRecord(req)
		if len(verifSeenReqs) == 1 {
			return verifJSONResponse(200, string(page1)), nil
		}
		return verifJSONResponse(200, string(page2)), nil
	}
	_, _, err := c.SearchLocksVerifiable(limit, false)
	verifAssert(err == nil, "verification succeeds")
	verifAssert(len(verifSeenReqs) == 2, "the second page is asked for")
	verifCover("verify-locks-request")
	for k, seen := range verifSeenReqs {
		verifAssert(seen.method == "POST" && seen.url == verifAPI+"/locks/verify", "POST to <endpoint>/locks/verify")
		verifAssert(verifMediaOK(seen), "Accept and Content-Type are the LFS media type")
		verifAssert(verifJSONKind(seen.body, "") == "object", "the body is a JSON object")
		verifAssert(verifJSONString(seen.body, "ref.name") == c.RemoteRef.Refspec(), "the request names the fully qualified ref")
		verifAssert(verifJSONKind(seen.body, "limit") == "number" && verifJSONInt(seen.body, "limit") == int64(limit), "limit is the caller's limit")
		if k == 0 {
			verifAssert(verifJSONKind(seen.body, "cursor") == "absent", "the first request has no cursor")
		} else {
			verifAssert(verifJSONString(seen.body, "cursor") == cursor, "the follow-up request carries the server's cursor")
		}
	}
}

type verifSearchList struct {
	Locks      []Lock `json:"locks"`
	NextCursor string `json:"next_cursor,omitempty"`
}

// a query value: text with URL meta characters, or any unreserved text
func verifQueryValue(tag string) string {
	switch verifChoose(tag+".kind", 5) {
	case 0:
		return "docs/R&D+plan v2=final.psd"
	case 1:
		return "c++/a b#c?d%e"
	case 2:
		return "q83vEjRWeJ+/8A=="
	case 3:
		return "plain.txt"
	}
	v := verifNondetString(tag)
	verifAssume(len(v) >= 1 && len(v) <= 24)
	verifAssumeAlphabet(v, "azAZ09--__..")
	return v
}

// VerifC18_ListLocksRequest: the lock list is a GET to <endpoint>/locks whose
// query names exactly the caller's filter, limit and ref and, on the next
// page, the cursor the server handed out - each value form-encoded so that
// the server reads back what was meant.
func VerifC18_ListLocksRequest() {
	verifSeenReqs = nil
	c := verifClient()
	c.RemoteRef = &git.Ref{Name: verifQueryValue("ref"), Type: []git.RefType{git.RefTypeLocalBranch, git.RefTypeOther}[verifChoose("ref.type", 2)]}
	filterKey := []string{"path", "id"}[verifChoose("filter.key", 2)]
	filterVal := verifQueryValue("filter.value")
	limit := verifChoose("limit", 3) * 7 // 0 (none), 7, 14
	cursor := verifQueryValue("cursor")
	page1, _ := json.Marshal(&verifSearchList{Locks: []Lock{}, NextCursor: cursor})
	page2, _ := json.Marshal(&verifSearchList{Locks: []Lock{}})
	lfsapi.VerifAPIAnswer = func(remote string, req *http.Request) (*http.Response, error) {
		verifRecord(req)
		if len(verifSeenReqs) == 1 {
			return verifJSONResponse(200, string(page1)), nil
		}
		return verifJSONResponse(200, string(page2)), nil
	}
	_, err := c.searchRemoteLocks(map[string]string{filterKey: filterVal}, limit)
	verifAssert(err == nil, "listing succeeds")
	verifAssert(len(verifSeenReqs) == 2, "the second page is asked for")
	verifCover("list-locks-request")
	for k, seen := range verifSeenReqs {
		verifAssert(seen.method == "GET" && seen.body == "", "GET without a body")
		verifAssert(seen.accept == verifLFSMedia, "Accept is the LFS media type")
		// expected query: keys in sorted order, values form-encoded
		want := ""
		add := func(key, val string) {
			if want != "" {
				want += "&"
			}
			want += key + "=" + url.QueryEscape(val)
		}
		if k == 1 {
			add("cursor", cursor)
		}
		if filterKey == "id" {
			add("id", filterVal)
		}
		if limit > 0 {
			add("limit", []string{"0", "7", "14"}[limit/7])
		}
		if filterKey == "path" {
			add("path", filterVal)
		}
		add("refspec", c.RemoteRef.Refspec())
		verifAssert(seen.url == verifAPI+"/locks?"+want, "the query names exactly filter, limit, ref and the server's cursor, form-encoded")
	}
}
