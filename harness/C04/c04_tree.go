package lfs

import (
	"strings"

	"github.com/git-lfs/git-lfs/v3/config"
	"github.com/git-lfs/git-lfs/v3/git"
	"github.com/git-lfs/git-lfs/v3/tools"
)

// the scripted tree (`git ls-tree -l -r` after parsing) and blob contents
var (
	verifTree     []git.TreeBlob
	verifBlobByID map[string]string
)

func verifLsBlobsStub(ref string, predicate func(*git.TreeBlob) bool) (*TreeBlobChannelWrapper, error) {
	blobs := make(chan git.TreeBlob, len(verifTree)+1)
	errs := make(chan error, 1)
	for k := range verifTree {
		t := verifTree[k]
		if predicate(&t) {
			blobs <- t
		}
	}
	close(blobs)
	close(errs)
	return &TreeBlobChannelWrapper{tools.NewBaseChannelWrapper(errs), blobs}, nil
}

func verifNewPointerScannerStub(gitEnv, osEnv config.Environment) (*PointerScanner, error) {
	return &PointerScanner{scanner: &git.ObjectScanner{}}, nil
}

// VerifC04_TreeScan: the scan of a tree that fetch, pull and checkout start
// from reports exactly the files whose blob is a pointer (canonical or in any
// older spelling, however short) under its path with the object id and size
// the pointer names; ordinary small files and blobs of 1024 bytes or more are
// not reported.
func VerifC04_TreeScan() {
	n := 1 + verifChoose("entries", verifBound("tree.entries", 2, 3))
	verifTree = nil
	verifBlobByID = map[string]string{}
	type want struct {
		name, oid string
		size      int64
	}
	var wants []want
	for k := 0; k < n; k++ {
		name := []string{"a.bin", "dir/b.bin", "c c.dat"}[k]
		blobID := strings.Repeat(string(rune('a'+k)), 40)
		oid := verifNondetString("oid")
		verifAssume(len(oid) == 64)
		verifAssumeAlphabet(oid, "09af")
		size := verifNondetString("size")
		verifAssume(len(size) >= 1 && len(size) <= 12)
		verifAssumeAlphabet(size, "09")
		verifAssume(size[0] != '0' || len(size) == 1)
		var blob string
		var blobSize int64
		switch verifChoose("entry.kind", 5) {
		case 0: // canonical pointer
			blob = "version https://git-lfs.github.com/spec/v1\noid sha256:" + oid + "\nsize " + size + "\n"
			wants = append(wants, want{name, oid, verifDecimalValue(size)})
		case 1: // pre-release spelling (shorter than any canonical pointer)
			blob = "version https://hawser.github.com/spec/v1\noid sha256:" + oid + "\nsize " + size + "\n"
			wants = append(wants, want{name, oid, verifDecimalValue(size)})
		case 2: // oldest spelling, no trailing newline
			blob = "version http://git-media.io/v/2\noid sha256:" + oid + "\nsize " + size
			wants = append(wants, want{name, oid, verifDecimalValue(size)})
		case 3: // an ordinary small file
			blob = verifNondetString("text")
			verifAssume(len(blob) >= 1 && len(blob) <= 1023) // (an empty file is the empty pointer)
			verifAssumeAlphabet(blob, "AZaz")
		case 4: // a large blob: only its size is looked at
			blobSize = verifNondetInt64("large.size")
			verifAssume(blobSize >= 1024)
		}
		if blobSize == 0 {
			blobSize = int64(len(blob))
		}
		verifBlobByID[blobID] = blob
		verifTree = append(verifTree, git.TreeBlob{Oid: blobID, Size: blobSize, Filename: name})
	}
	git.VerifBlobOf = func(id string) string { return verifBlobByID[id] }
	var got []*WrappedPointer
	viaLFSFiles := verifNondetBool("scan.lfs.files")
	var err error
	cb := func(p *WrappedPointer, e error) {
		if e != nil {
			err = e
			return
		}
		got = append(got, p)
	}
	if viaLFSFiles {
		err2 := runScanLFSFiles(cb, "HEAD", nil, nil, nil)
		verifAssert(err2 == nil, "the scan runs")
	} else {
		err2 := runScanTree(cb, "HEAD", nil, nil, nil)
		verifAssert(err2 == nil, "the scan runs")
	}
	verifAssert(err == nil, "no error is reported for readable blobs")
	verifAssert(len(got) == len(wants), "exactly the pointer files of the tree are reported")
	for k := range wants {
		if k < len(got) {
			verifCover("pointer-file")
			verifAssert(got[k].Name == wants[k].name && got[k].Oid == wants[k].oid && got[k].Size == wants[k].size, "each under its path, with the object id and size its pointer names")
		}
	}
}
