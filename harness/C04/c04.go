package commands

import (
	"github.com/git-lfs/git-lfs/v3/config"
	"github.com/git-lfs/git-lfs/v3/fs"
	"github.com/git-lfs/git-lfs/v3/git"
	"github.com/git-lfs/git-lfs/v3/lfs"
)

type verifSamePath struct{}

func (verifSamePath) Convert(p string) string { return p }

// paths handed to `git update-index` by the stubbed indexer
var verifIndexed []string

func verifIndexerAddStub(i *gitIndexer, path string) error {
	verifIndexed = append(verifIndexed, path)
	return nil
}

func verifSilent(format string, args ...interface{})                  {}
func verifSilentErr(err error)                                        {}
func verifSilentLogged(err error, format string, args ...interface{}) {}

// VerifC04_SingleCheckout: checking out one LFS file (the step `git lfs
// checkout` and `git lfs pull` run for every pointer of the tree) replaces the
// working-tree file only when it is missing or still holds the pointer that is
// recorded for it; any other content (an edit, another pointer, an empty file)
// is left byte for byte. When it does replace the file and the object is in
// local storage, the file holds exactly the object's bytes; when the object is
// not local the file stays a valid pointer for it.
func VerifC04_SingleCheckout() {
	root := verifTempDir()
	config.VerifFS = &fs.Filesystem{LFSStorageDir: root + "/lfs"}
	lfs.VerifTmpDir = root + "/lfs/tmp"
	verifFSWrite(root+"/lfs/objects/.keep", "", 0644)
	verifFSWrite(root+"/work/.keep", "", 0644)
	verifOverride("github.com/git-lfs/git-lfs/v3/commands.Error", verifSilent)
	verifOverride("github.com/git-lfs/git-lfs/v3/commands.FullError", verifSilentErr)
	verifOverride("github.com/git-lfs/git-lfs/v3/commands.LoggedError", verifSilentLogged)
	cfg = &config.Configuration{
		Git: config.EnvironmentOf(config.MapFetcher(map[string][]string{"core.sharedrepository": {"group"}})),
		Os:  config.EnvironmentOf(config.MapFetcher(map[string][]string{})),
	}
	verifIndexed = nil

	// the object the tree's pointer names
	content := verifNondetString("object.content")
	verifAssume(len(content) >= 1 && len(content) <= 4000000)
	oid := verifHashHex([]byte(content))
	ptr := lfs.NewPointer(oid, int64(len(content)), nil)
	objectLocal := verifChoose("object.local", 2) == 1
	if objectLocal {
		verifFSWrite(config.VerifFS.ObjectPathname(oid), content, 0444)
	}

	// the working-tree file
	name := root + "/work/file.bin"
	mode := []int{0644, 0444, 0755}[verifChoose("file.mode", 3)]
	before := ""
	state := verifChoose("file.state", 7)
	switch state {
	case 0: // missing
	case 1: // the pointer recorded for it
		before = ptr.Encoded()
	case 2: // a pointer to another object
		other := verifNondetString("other.oid")
		verifAssumeAlphabet(other, "09af")
		verifAssume(len(other) == 64 && other != oid)
		before = lfs.NewPointer(other, int64(len(content)), nil).Encoded()
	case 3: // edited: short content that is no pointer
		before = verifNondetString("edit.short")
		verifAssumeAlphabet(before, "AZaz")
		verifAssume(len(before) >= 1 && len(before) <= 1023)
	case 4: // edited: content of 1024 bytes or more
		before = verifNondetString("edit.long")
		verifAssume(len(before) >= 1024 && len(before) <= 4000000)
	case 5: // emptied
	case 6: // edited into pointer-shaped text that is not a valid pointer
		hex := verifNondetString("bad.oid")
		verifAssumeAlphabet(hex, "09af")
		switch verifChoose("bad.kind", 5) {
		case 0: // a digit short
			verifAssume(len(hex) == 63)
			before = "version https://git-lfs.github.com/spec/v1\noid sha256:" + hex + "\nsize 12\n"
		case 1: // another hash function
			verifAssume(len(hex) == 32)
			before = "version https://git-lfs.github.com/spec/v1\noid md5:" + hex + "\nsize 12\n"
		case 2: // a size that is no number
			verifAssume(len(hex) == 64)
			before = "version https://git-lfs.github.com/spec/v1\noid sha256:" + hex + "\nsize big\n"
		case 3: // a version this client does not know
			verifAssume(len(hex) == 64)
			before = "version https://git-lfs.github.com/spec/v2\noid sha256:" + hex + "\nsize 12\n"
		case 4: // a negative size
			verifAssume(len(hex) == 64)
			before = "version https://git-lfs.github.com/spec/v1\noid sha256:" + hex + "\nsize -12\n"
		}
	}
	if state != 0 {
		verifFSWrite(name, before, mode)
	}
	git.VerifDiffIndexOutput = []string{"", ":100644 000000 aaaa 0000 D\tfile.bin\n", ":100755 000000 aaaa 0000 D\tfile.bin\n", ":100644 100644 aaaa bbbb M\tfile.bin\n"}[verifChoose("index.state", 4)]
	deletedInIndex := git.VerifDiffIndexOutput != "" && git.VerifDiffIndexOutput[8:14] == "000000"

	c := &singleCheckout{gitIndexer: &gitIndexer{}, pathConverter: verifSamePath{}, remote: "origin"}
	c.Run(&lfs.WrappedPointer{Name: name, Pointer: ptr})

	after, exists := verifFSRead(name)
	switch {
	case state >= 2:
		verifCover("edited-file")
		verifAssert(exists && after == before, "a file whose content is not the recorded pointer is never modified")
		verifAssert(verifFSMode(name) == mode, "its mode is left alone too")
		verifAssert(len(verifIndexed) == 0, "and it is not re-added to the index")
	case state == 0 && deletedInIndex:
		verifCover("deleted-in-index")
		verifAssert(!exists, "a file deleted in the index is not resurrected")
	case objectLocal:
		verifCover("materialised")
		verifAssert(exists && after == content, "the file holds exactly the object's bytes")
		verifAssert(len(verifIndexed) == 1 && verifIndexed[0] == name, "the file is handed to git update-index")
	default:
		verifCover("not-local")
		verifAssert(exists && after == ptr.Encoded(), "without the object the file stays the pointer")
	}
	stored, ok := verifFSRead(config.VerifFS.ObjectPathname(oid))
	verifAssert(ok == objectLocal && (!ok || stored == content), "local storage is not changed by a checkout")
}
