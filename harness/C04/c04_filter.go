package commands

import (
	"github.com/git-lfs/git-lfs/v3/config"
	"github.com/git-lfs/git-lfs/v3/tools"
)

func verifSameList(a, b []string) bool {
	if len(a) != len(b) {
		return false
	}
	for k := range a {
		if a[k] != b[k] {
			return false
		}
	}
	return true
}

// VerifC04_IncludeExcludeSelection: the include and the exclude side of the
// fetch filter are chosen independently: a command-line value (-I / -X)
// replaces the configured lfs.fetchinclude / lfs.fetchexclude of the same
// side only; the other side keeps its configured value, and commands that do
// not use fetch options use neither.
func VerifC04_IncludeExcludeSelection() {
	pathLists := []string{"", "media/", "*.bin,docs/big", " a/b , c\\"}
	cfgInc := pathLists[verifChoose("config.include", 4)]
	cfgExc := pathLists[verifChoose("config.exclude", 4)]
	m := map[string][]string{}
	if cfgInc != "" {
		m["lfs.fetchinclude"] = []string{cfgInc}
	}
	if cfgExc != "" {
		m["lfs.fetchexclude"] = []string{cfgExc}
	}
	c := &config.Configuration{
		Git: config.EnvironmentOf(config.MapFetcher(m)),
		Os:  config.EnvironmentOf(config.MapFetcher(map[string][]string{})),
	}
	var incArg, excArg *string
	if verifNondetBool("include.arg.given") {
		v := pathLists[verifChoose("include.arg", 4)]
		incArg = &v
	}
	if verifNondetBool("exclude.arg.given") {
		v := pathLists[verifChoose("exclude.arg", 4)]
		excArg = &v
	}
	useFetch := verifNondetBool("use.fetch.options")
	inc, exc := determineIncludeExcludePaths(c, incArg, excArg, useFetch)
	var wantInc, wantExc []string
	switch {
	case incArg != nil:
		verifCover("include-from-argument")
		wantInc = tools.CleanPaths(*incArg, ",")
	case useFetch:
		verifCover("include-from-config")
		wantInc = tools.CleanPaths(cfgInc, ",")
	}
	switch {
	case excArg != nil:
		verifCover("exclude-from-argument")
		wantExc = tools.CleanPaths(*excArg, ",")
	case useFetch:
		verifCover("exclude-from-config")
		wantExc = tools.CleanPaths(cfgExc, ",")
	}
	verifAssert(verifSameList(inc, wantInc), "the include side is the -I value, else the configured lfs.fetchinclude")
	verifAssert(verifSameList(exc, wantExc), "the exclude side is the -X value, else the configured lfs.fetchexclude")
}
