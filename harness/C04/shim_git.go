package git

// VerifDiffIndexOutput is what the stubbed `git diff-index --cached HEAD -- <path>` prints.
var VerifDiffIndexOutput string

func verifDiffIndexStub(ref string, cached bool, paths []string) (string, error) {
	return VerifDiffIndexOutput, nil
}
