package lfs

import (
	"bytes"
	"strconv"
	"strings"
)

const verifSpecVersion = "version https://git-lfs.github.com/spec/v1\n"

// verifSpecEncoding: the canonical encoding of docs/spec.md written
// independently of Pointer.Encoded: version line first, then the remaining
// keys in sorted order (ext-N-* lines sort before oid, oid before size), each
// line LF-terminated; the empty pointer is the empty string.
func verifSpecEncoding(p *Pointer) string {
	if p.Size == 0 {
		return ""
	}
	s := verifSpecVersion
	for _, e := range p.Extensions {
		s += "ext-" + strconv.Itoa(e.Priority) + "-" + e.Name + " " + e.OidType + ":" + e.Oid + "\n"
	}
	s += "oid " + p.OidType + ":" + p.Oid + "\n"
	s += "size " + strconv.FormatInt(p.Size, 10) + "\n"
	return s
}

// VerifC07_DecodeStrict: for every byte string the decoder either rejects or
// returns a well-formed pointer, reports Canonical exactly for the canonical
// encoding, and never panics.
func VerifC07_DecodeStrict() {
	s := []byte(verifPointerLikeInput(verifBound("lines", 4, 6), verifBound("line.len", 100, 200)))
	p, err := DecodePointer(bytes.NewReader(s))
	if err != nil {
		verifCover("rejected")
		verifAssert(p == nil, "no pointer is returned together with an error")
		return
	}
	verifAssert(p != nil, "accepted input yields a pointer")
	if len(s) == 0 {
		verifCover("empty")
		verifAssert(p.Size == 0 && p.Oid == "e3b0c44298fc1c149afbf4c8996fb92427ae41e4649b934ca495991b7852b855", "empty input is the empty pointer")
		return
	}
	verifCover("accepted")
	verifObserve("oid", p.Oid)
	verifObserve("size", p.Size)
	verifAssert(verifMatches(`\A[0-9a-f]{64}\z`, p.Oid), "oid is 64 lower-case hex digits")
	verifAssert(p.Size >= 0, "size is non-negative")
	verifAssert(p.OidType == "sha256", "oid type is sha256")
	last := -1
	for _, e := range p.Extensions {
		verifAssert(e.Priority > last, "extension priorities are unique and ascending")
		verifAssert(e.Priority >= 0 && e.Priority <= 9, "extension priority is one digit")
		verifAssert(verifMatches(`\A[0-9a-f]{64}\z`, e.Oid), "extension oid is 64 lower-case hex digits")
		last = e.Priority
	}
	spec := verifSpecEncoding(p)
	verifObserve("canonical", p.Canonical)
	verifAssert(p.Canonical == (string(s) == spec), "Canonical is reported exactly for the canonical encoding")
	if p.Canonical {
		verifCover("canonical")
	} else {
		verifCover("non-canonical")
	}
}

// verifPointerLikeInput builds an arbitrary byte string in a form the engine
// can decompose syntactically: lead ++ core ++ trail with lead/trail ASCII white
// space (<= 3 bytes) and core = up to maxLines lines joined by LF, each line
// (with or without a trailing CR) either empty, free of spaces, or key SP rest
// with a space-free key. Every
// byte string whose trimmed core has at most maxLines lines has exactly one
// such decomposition, so nothing but the stated bounds (and the edge-byte
// restriction of the "trimmed" class) is excluded.
func verifPointerLikeInput(maxLines, maxLine int) string {
	return verifPointerLikeInputT(maxLines, maxLine, true)
}

// verifPointerLikeInputT: as above; withTrail=false leaves out the trailing
// white space (for callers that append more content).
func verifPointerLikeInputT(maxLines, maxLine int, withTrail bool) string {
	lead := verifNondetString("lead")
	trail := ""
	if withTrail {
		trail = verifNondetString("trail")
		verifAssumeClass(trail, "asciiws")
		verifAssume(len(trail) <= 3)
	}
	verifAssumeClass(lead, "asciiws")
	verifAssume(len(lead) <= 3)
	n := verifChoose("lines", maxLines+1)
	core := ""
	for k := 0; k < n; k++ {
		if k > 0 {
			core += "\n"
		}
		cr := []string{"", "\r"}[verifChoose("cr", 2)]
		switch verifChoose("line.kind", 3) {
		case 0: // empty line
			core += cr
		case 1: // no space
			w := verifNondetString("word")
			verifAssume(len(w) >= 1 && len(w) <= maxLine)
			verifAssume(verifNot(verifOr(strings.Contains(w, " "), strings.Contains(w, "\n"))))
			verifAssumeClass(w, "nocrend")
			core += w + cr
			// a line without a space ends decoding: what follows is never
			// parsed, so it is one unstructured tail (any bytes, any lines)
			if k+1 < n {
				tail := verifNondetString("tail")
				verifAssume(len(tail) <= maxLine)
				core += "\n" + tail
				k = n
			}
		case 2:
			key := verifNondetString("key")
			rest := verifNondetString("rest")
			verifAssume(len(key) <= 24 && len(rest) <= maxLine)
			verifAssume(verifNot(verifOr(strings.Contains(key, " "), strings.Contains(key, "\n"))))
			verifAssume(verifNot(strings.Contains(rest, "\n")))
			verifAssumeClass(rest, "nocrend")
			core += key + " " + rest + cr
		}
	}
	verifAssumeClass(core, "trimmed")
	return lead + core + trail
}

// VerifC07_RoundTrip: for every valid pointer the encoder emits the canonical
// form of the specification and decoding it returns the same pointer.
func VerifC07_RoundTrip() {
	oid := verifNondetString("oid")
	verifAssumeAlphabet(oid, "09af")
	verifAssume(len(oid) == 64)
	size := verifNondetInt64("size")
	verifAssume(size >= 0)
	nExt := verifChoose("extensions", verifBound("extensions", 2, 3)+1)
	var exts []*PointerExtension
	prev := -1
	for k := 0; k < nExt; k++ {
		name := verifNondetString("ext.name")
		verifAssume(len(name) >= 1 && len(name) <= 8)
		verifAssumeAlphabet(name, "09AZ__az")
		prio := verifNondetInt("ext.priority")
		verifAssume(prio > prev && prio <= 9)
		prev = prio
		eoid := verifNondetString("ext.oid")
		verifAssumeAlphabet(eoid, "09af")
		verifAssume(len(eoid) == 64)
		exts = append(exts, NewPointerExtension(name, prio, eoid))
	}
	p := NewPointer(oid, size, exts)
	enc := p.Encoded()
	verifObserve("enclen", len(enc))
	verifAssert(enc == verifSpecEncoding(p), "Encoded() is the canonical encoding of the specification")
	if size == 0 {
		verifCover("size-zero")
		verifAssert(enc == "", "a zero-size pointer encodes as the empty file")
		return
	}
	q, err := DecodePointer(bytes.NewReader([]byte(enc)))
	verifAssert(err == nil && q != nil, "the canonical encoding of a valid pointer decodes")
	verifCover("decoded")
	verifAssert(q.Oid == oid && q.Size == size && q.OidType == "sha256", "decoding returns the same oid and size")
	verifAssert(q.Canonical, "the encoder's output is reported canonical")
	verifAssert(len(q.Extensions) == len(exts), "decoding returns the same number of extensions")
	for k := range q.Extensions {
		if k < len(exts) {
			verifAssert(q.Extensions[k].Name == exts[k].Name && q.Extensions[k].Priority == exts[k].Priority && q.Extensions[k].Oid == exts[k].Oid, "decoding returns the same extensions in priority order")
		}
	}
}

// VerifC07_ExtensionLines: pointer-shaped input with up to three extension
// lines whose priority digits, names and oids are arbitrary: an accepted
// pointer has unique ascending priorities and is canonical exactly for the
// canonical text.
func VerifC07_ExtensionLines() {
	text := "version https://git-lfs.github.com/spec/v1\n"
	n := 1 + verifChoose("ext.lines", verifBound("ext.lines", 2, 3))
	for k := 0; k < n; k++ {
		d := verifNondetString("ext.digit")
		verifAssume(len(d) == 1)
		verifAssumeAlphabet(d, "09")
		name := verifNondetString("ext.name")
		verifAssume(len(name) >= 1 && len(name) <= 4)
		verifAssumeAlphabet(name, "az")
		eoid := verifNondetString("ext.oid")
		verifAssumeAlphabet(eoid, "09af")
		verifAssume(len(eoid) == 64)
		text += "ext-" + d + "-" + name + " sha256:" + eoid + "\n"
	}
	oid := verifNondetString("oid")
	verifAssumeAlphabet(oid, "09af")
	verifAssume(len(oid) == 64)
	size := verifNondetString("size")
	verifAssumeAlphabet(size, "09")
	verifAssume(len(size) >= 1 && len(size) <= 12)
	text += "oid sha256:" + oid + "\nsize " + size + "\n"
	p, err := DecodePointer(bytes.NewReader([]byte(text)))
	if err != nil {
		verifCover("ext-rejected")
		return
	}
	verifCover("ext-accepted")
	verifAssert(len(p.Extensions) >= 1 && len(p.Extensions) <= n, "extensions come from the extension lines")
	last := -1
	for _, e := range p.Extensions {
		verifAssert(e.Priority > last, "extension priorities are unique and ascending")
		last = e.Priority
	}
	verifAssert(p.Canonical == (text == verifSpecEncoding(p)), "Canonical is reported exactly for the canonical encoding")
}

// VerifC07_SizeLine: a pointer whose size is any string of up to 20 digits is
// either rejected or has exactly that non-negative value.
func VerifC07_SizeLine() {
	oid := verifNondetString("oid")
	verifAssumeAlphabet(oid, "09af")
	verifAssume(len(oid) == 64)
	size := verifNondetString("size")
	verifAssumeAlphabet(size, "09")
	verifAssume(len(size) >= 1 && len(size) <= 20)
	text := "version https://git-lfs.github.com/spec/v1\noid sha256:" + oid + "\nsize " + size + "\n"
	p, err := DecodePointer(bytes.NewReader([]byte(text)))
	if err != nil {
		verifCover("size-rejected")
		return
	}
	verifCover("size-accepted")
	verifAssert(p.Size >= 0, "size is non-negative")
	verifAssert(p.Size == verifDecimalValue(size), "size is the decimal value of its text")
}
