package commands

import (
	"strings"

	"github.com/git-lfs/git-lfs/v3/config"
	"github.com/git-lfs/git-lfs/v3/fs"
	"github.com/git-lfs/git-lfs/v3/git"
	"github.com/git-lfs/git-lfs/v3/lfs"
	"github.com/git-lfs/git-lfs/v3/tools"
	"github.com/git-lfs/git-lfs/v3/tq"
)

func verifBuildGitScannerStub(c *uploadContext) *lfs.GitScanner { return &lfs.GitScanner{} }
func verifVerifyLocksStub(lv *lockVerifier, updates []*git.RefUpdate) {}
func verifNewQueueStub(c *uploadContext, options ...tq.Option) *tq.TransferQueue { return nil }
func verifCollectErrorsStub(c *uploadContext, q *tq.TransferQueue)              {}
func verifReportErrorsStub(c *uploadContext)                                    {}

const verifZero40 = "0000000000000000000000000000000000000000"

func verifPushSha(name string, mayBeZero bool) string {
	n := 1
	if mayBeZero {
		n = 2
	}
	if verifChoose(name+".kind", n) == 1 {
		return verifZero40
	}
	s := verifNondetString(name)
	verifAssume(len(s) == 40)
	verifAssumeAlphabet(s, "09af")
	verifAssume(s != verifZero40)
	return s
}

func verifRefName(name string) string {
	s := verifNondetString(name)
	verifAssumeAlphabet(s, "az09//--__..")
	verifAssume(len(s) >= 1 && len(s) <= 16)
	return []string{"refs/heads/", "refs/tags/"}[verifChoose(name+".ns", 2)] + s
}

// VerifC03_PrePushRanges: for every pre-push input (the lines Git writes to
// the hook) each updated ref is scanned from its new local commit, the only
// commits excluded are remote sides of these very updates (commits the remote
// has), a deleted ref is not scanned, and an unchanged ref does not narrow the
// scan of another one.
func VerifC03_PrePushRanges() {
	cfg = &config.Configuration{
		Git: config.EnvironmentOf(config.MapFetcher(map[string][]string{})),
		Os:  config.EnvironmentOf(config.MapFetcher(map[string][]string{})),
	}
	n := 1 + verifChoose("lines", verifBound("updates", 2, 3))
	type upd struct{ lref, lsha, rref, rsha string }
	var ups []upd
	text := ""
	for k := 0; k < n; k++ {
		u := upd{verifRefName("local.ref"), verifPushSha("local.sha", true), verifRefName("remote.ref"), verifPushSha("remote.sha", true)}
		if verifChoose("unchanged", 2) == 1 {
			u.rsha = u.lsha // an up-to-date ref that Git still lists (push --all)
		}
		ups = append(ups, u)
		text += u.lref + " " + u.lsha + " " + u.rref + " " + u.rsha + "\n"
	}
	updates := prePushRefs(strings.NewReader(text))
	lfs.VerifScans = nil
	ctx := &uploadContext{Remote: "origin", uploadedOids: tools.NewStringSet()}
	pushAll := verifNondetBool("push.all")
	err := uploadForRefUpdates(ctx, updates, pushAll)
	verifAssert(err == nil, "scanning succeeds when the scanner does")

	// expected scans: one per update whose local side is not the zero id
	k := 0
	for _, u := range ups {
		if u.lsha == verifZero40 {
			verifCover("deleted-ref")
			continue
		}
		verifAssert(k < len(lfs.VerifScans), "every updated ref is scanned")
		sc := lfs.VerifScans[k]
		k++
		verifAssert(sc.Include == u.lsha, "the scan starts at the pushed commit")
		if pushAll {
			verifCover("push-all")
			verifAssert(sc.Kind == "ref-with-deleted" && len(sc.Exclude) == 0, "push --all scans the whole history of the ref")
			continue
		}
		verifCover("range")
		verifAssert(sc.Kind == "range-to-remote", "a push scans the range the remote lacks")
		for _, x := range sc.Exclude {
			fromUpdate := false
			for _, v := range ups {
				if x == v.rsha && v.lsha != verifZero40 && v.lsha != v.rsha {
					fromUpdate = true
				}
			}
			verifAssert(fromUpdate || x == verifZero40 || x == "", "only remote sides of changed refs are excluded from the scan")
			verifAssert(x != u.lsha || fromUpdate, "the pushed commit itself is not excluded unless the remote has it under another ref")
		}
	}
	verifAssert(k == len(lfs.VerifScans), "nothing else is scanned")
}

// verifFileContent: file content that is not a pointer: letters (what the
// 1024-byte pointer sniff sees) followed, once those fill the sniff window, by
// arbitrary bytes of any length.
func verifFileContent(name string) string {
	t1 := verifNondetString(name + ".t1")
	verifAssume(len(t1) >= 1 && len(t1) <= 1100)
	verifAssumeAlphabet(t1, "AZaz")
	verifAssume(verifNot(verifOr(strings.Contains(t1, "git-lfs"), verifOr(strings.Contains(t1, "git-media"), strings.Contains(t1, "hawser")))))
	if verifChoose(name+".has.t2", 2) == 1 {
		t2 := verifNondetString(name + ".t2")
		verifAssume(len(t2) >= 1 && len(t2) <= 4000000)
		verifAssume(len(t1) >= 1024)
		return t1 + t2
	}
	return t1
}

// VerifC03_UploadTransfer: what the push hands to the transfer queue for one
// pointer: the object's path in local storage; a working-tree file with other
// content never becomes the object, and when neither the object nor the
// working-tree file exists the transfer is flagged as having no source
// (unless incomplete pushes are allowed) so that the batch fails
// (VerifC03_MissingSource); an absent object that is not flagged is caught by
// the queue's own presence check (VerifC03_Partition).
func VerifC03_UploadTransfer() {
	root := verifTempDir()
	config.VerifFS = &fs.Filesystem{LFSStorageDir: root + "/lfs"}
	config.VerifTmp = root + "/lfs/tmp"
	lfs.VerifTmpDir = root + "/lfs/tmp"
	config.VerifWorkDir = root + "/work"
	verifFSWrite(root+"/lfs/objects/.keep", "", 0644)
	verifFSWrite(root+"/lfs/tmp/.keep", "", 0644)
	verifFSWrite(root+"/work/.keep", "", 0644)
	cfg = &config.Configuration{
		Git: config.EnvironmentOf(config.MapFetcher(map[string][]string{})),
		Os:  config.EnvironmentOf(config.MapFetcher(map[string][]string{})),
	}
	content := verifFileContent("object")
	oid := verifHashHex([]byte(content))
	objPath := config.VerifFS.ObjectPathname(oid)
	objectLocal := verifChoose("object.local", 2) == 1
	if objectLocal {
		verifFSWrite(objPath, content, 0444)
	}
	work := ""
	workState := verifChoose("work.state", 3)
	switch workState {
	case 1: // the file as committed
		work = content
		verifFSWrite(root+"/work/file.bin", work, 0644)
	case 2: // edited since
		work = verifFileContent("work")
		verifAssume(work != content)
		verifAssume(verifHashHex([]byte(work)) != oid)
		verifFSWrite(root+"/work/file.bin", work, 0644)
	}
	allowMissing := verifNondetBool("allowincompletepush")
	ctx := &uploadContext{Remote: "origin", uploadedOids: tools.NewStringSet(), gitfilter: lfs.NewGitFilter(cfg), allowMissing: allowMissing}
	t, err := ctx.uploadTransfer(&lfs.WrappedPointer{Name: "file.bin", Pointer: lfs.NewPointer(oid, int64(len(content)), nil)})
	verifAssert(err == nil && t != nil, "preparing the transfer succeeds")
	verifAssert(t.Oid == oid && t.Size == int64(len(content)) && t.Path == objPath && t.Name == "file.bin", "the transfer names the object, its size and its place in local storage")
	stored, ok := verifFSRead(objPath)
	switch {
	case objectLocal:
		verifCover("object-local")
		verifAssert(!t.Missing && ok && stored == content, "a local object is used as it is")
	case workState == 1:
		// git-lfs may or may not re-create the object here (the transfer queue
		// reports it as missing if it does not); it must never store other bytes
		verifCover("work-tree-identical")
		verifAssert(!ok || stored == content, "only the pointer's own content can become the object")
	case workState == 2:
		verifCover("work-tree-differs")
		verifAssert(!ok, "a different working-tree file never becomes the object")
	default:
		verifCover("no-source")
		verifAssert(!ok, "nothing appears in local storage")
		verifAssert(t.Missing == !allowMissing, "an object without any source is flagged so that the push fails, unless incomplete pushes are allowed")
	}
}
