package commands

import (
	"strconv"

	"github.com/git-lfs/git-lfs/v3/errors"
	"github.com/git-lfs/git-lfs/v3/tq"
)

type verifExit3 struct{ code int }

func verifOsExit3(code int)                                           { panic(verifExit3{code}) }
func verifSilent3(format string, args ...interface{})                 {}
func verifSilentLogged3(err error, format string, args ...interface{}) {}

// VerifC03_PushOutcome: what the push makes of the errors its transfer queue
// reported (uploadContext.CollectErrors, ReportErrors - the last thing the
// pre-push hook and `git lfs push` do; Git updates the remote refs only when
// the process exits with status 0): whenever an object that is present could
// not be uploaded the process exits non-zero - whatever else went wrong and
// whether or not incomplete pushes are allowed - and whenever a referenced
// object is missing or corrupt in local storage it exits non-zero unless
// lfs.allowincompletepush is set.
func VerifC03_PushOutcome() {
	verifOverride("os.Exit", verifOsExit3)
	verifOverride("github.com/git-lfs/git-lfs/v3/commands.Print", verifSilent3)
	verifOverride("github.com/git-lfs/git-lfs/v3/commands.Error", verifSilent3)
	allowMissing := verifChoose("lfs.allowincompletepush", 2) == 1
	nMissing := verifChoose("missing.objects", 3)
	nCorrupt := verifChoose("corrupt.objects", 2)
	nFailed := verifChoose("failed.uploads", 3)
	var errs []error
	add := func(kind, k int) {
		name := "file" + strconv.Itoa(kind) + strconv.Itoa(k) + ".bin"
		oid := verifOid3(kind*3 + k)
		switch kind {
		case 0:
			errs = append(errs, tq.VerifMissingObjectError(name, oid))
		case 1:
			errs = append(errs, tq.VerifCorruptObjectError(name, oid))
		case 2:
			err := errors.New("upload of " + oid + " failed")
			if verifChoose("failure.is.fatal", 2) == 1 {
				err = errors.NewFatalError(err)
			}
			errs = append(errs, err)
		}
	}
	counts := []int{nMissing, nCorrupt, nFailed}
	order := [][]int{{0, 1, 2}, {2, 1, 0}, {1, 2, 0}}[verifChoose("error.order", 3)]
	for _, kind := range order {
		for k := 0; k < counts[kind]; k++ {
			add(kind, k)
		}
	}
	ctx := &uploadContext{
		Remote: "origin", allowMissing: allowMissing, lockVerifier: &lockVerifier{},
		missing: map[string]string{}, corrupt: map[string]string{},
	}
	ctx.CollectErrors(tq.VerifQueueWithErrors(errs))
	code := 0
	exited := false
	func() {
		defer func() {
			if r := recover(); r != nil {
				x, ok := r.(verifExit3)
				if !ok {
					panic(r)
				}
				code, exited = x.code, true
			}
		}()
		ctx.ReportErrors()
	}()
	if nMissing+nCorrupt+nFailed == 0 {
		verifCover("clean-push")
	}
	if nMissing+nCorrupt > 0 && nFailed > 0 && allowMissing {
		verifCover("incomplete-push-with-failed-upload")
	}
	if nFailed > 0 {
		verifCover("upload-failed")
		verifAssert(exited && code != 0, "a push in which the upload of a present object failed exits non-zero, also when incomplete pushes are allowed")
	}
	if nMissing+nCorrupt > 0 && !allowMissing {
		verifCover("object-missing")
		verifAssert(exited && code != 0, "a push with objects missing or corrupt in local storage exits non-zero unless incomplete pushes are allowed")
	}
}

func verifOid3(k int) string {
	const hex = "0123456789abcdef"
	s := ""
	for len(s) < 64 {
		s += hex[k%16 : k%16+1]
	}
	return s
}
