package lfs

import (
	"strings"

	"github.com/git-lfs/git-lfs/v3/git"
)

// VerifC03_PointerScan: of the small blobs a push scan reads, every blob that
// is a pointer (canonical or not: surrounded by white space, CRLF line ends,
// a historical version URL) is reported with the object id and size it names,
// so that the object is queued for upload; content that is no pointer and
// blobs of 1024 bytes or more are not.
func VerifC03_PointerScan() {
	oid := verifNondetString("oid")
	verifAssume(len(oid) == 64)
	verifAssumeAlphabet(oid, "09af")
	size := verifNondetString("size")
	verifAssume(len(size) >= 1 && len(size) <= 15)
	verifAssumeAlphabet(size, "09")
	verifAssume(size[0] != '0' || len(size) == 1)
	var blob string
	kind := verifChoose("blob.kind", 3)
	switch kind {
	case 0: // a pointer, in any of the spellings the decoder accepts
		lead := verifNondetString("lead")
		verifAssumeClass(lead, "asciiws")
		verifAssume(len(lead) <= 3)
		trail := verifNondetString("trail")
		verifAssumeClass(trail, "asciiws")
		verifAssume(len(trail) <= 3)
		nl := []string{"\n", "\r\n"}[verifChoose("line.end", 2)]
		version := []string{
			"https://git-lfs.github.com/spec/v1",
			"https://hawser.github.com/spec/v1",
			"http://git-media.io/v/2",
		}[verifChoose("version", 3)]
		blob = lead + "version " + version + nl + "oid sha256:" + oid + nl + "size " + size + trail
	case 1: // not a pointer: letters only
		blob = verifNondetString("text")
		verifAssume(len(blob) >= 1 && len(blob) <= 1023)
		verifAssumeAlphabet(blob, "AZaz")
	case 2: // a pointer padded beyond the cut-off is content
		pad := verifNondetString("padding")
		verifAssumeClass(pad, "asciiws")
		verifAssume(len(pad) >= 1024 && len(pad) <= 5000)
		blob = "version https://git-lfs.github.com/spec/v1\noid sha256:" + oid + "\nsize " + size + "\n" + pad
	}
	git.VerifBlobSha = strings.Repeat("ab", 20)
	git.VerifBlobContent = blob
	ps := &PointerScanner{scanner: &git.ObjectScanner{}}
	more := ps.Scan(git.VerifBlobSha)
	verifAssert(more && ps.Err() == nil, "scanning a readable blob succeeds")
	verifAssert(ps.BlobSHA() == git.VerifBlobSha, "the blob is identified")
	p := ps.Pointer()
	switch kind {
	case 0:
		verifCover("pointer")
		verifAssert(p != nil, "a blob that is a pointer is reported as one")
		verifAssert(p.Oid == oid && p.Size == verifDecimalValue(size) && p.Sha1 == git.VerifBlobSha, "with the object id and size it names")
		verifAssert(ps.ContentsSha() == oid, "its content id is the object's")
	case 1:
		verifCover("text")
		verifAssert(p == nil, "content that is no pointer is not reported")
	case 2:
		verifCover("padded-beyond-cutoff")
		verifAssert(p == nil, "a blob of 1024 bytes or more is never a pointer")
	}
}
