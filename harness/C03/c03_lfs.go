package lfs

import (
	"bufio"
	"strconv"
	"strings"

	"github.com/git-lfs/git-lfs/v3/git"
)

// verifRefSha: commit ids are drawn from a pool of three (equal and different
// ids on the two sides are both explored); the code under analysis never
// looks inside an id, which the ShowRefLine and RevListArgs entries cover with
// arbitrary hex strings.
func verifRefSha(name string) string {
	return []string{
		"1111111111111111111111111111111111111111",
		"2222222222222222222222222222222222222222",
		"3333333333333333333333333333333333333333",
	}[verifChoose(name, verifBound("sha.pool", 2, 3))]
}

func verifBranch(name string) string {
	// a few fixed names plus an arbitrary one, so that equal and different
	// names on the two sides are both inside the explored space
	switch verifChoose(name+".kind", 4) {
	case 0:
		return "main"
	case 1:
		return "topic"
	case 2:
		return "Topic" // branch names are case sensitive
	}
	s := verifNondetString(name)
	verifAssumeAlphabet(s, "azAZ09//--")
	verifAssume(len(s) >= 1 && len(s) <= 12)
	return s
}

// VerifC03_SkippedRefs: the commits a push scan excludes beyond the caller's
// own exclude list are exactly the locally cached remote-tracking branches of
// the push remote that the server still lists; a branch deleted on the server
// (whose objects the server may have collected) is never used as a "the
// remote already has this" boundary.
func VerifC03_SkippedRefs() {
	nc := verifChoose("cached.n", verifBound("refs", 2, 3)+1)
	na := verifChoose("actual.n", verifBound("refs", 2, 3)+1)
	git.VerifCachedRefs, git.VerifActualRefs = nil, nil
	for k := 0; k < nc; k++ {
		git.VerifCachedRefs = append(git.VerifCachedRefs, &git.Ref{Name: verifBranch("cached.name"), Type: git.RefTypeRemoteBranch, Sha: verifRefSha("cached.sha")})
	}
	for k := 0; k < na; k++ {
		git.VerifActualRefs = append(git.VerifActualRefs, &git.Ref{Name: verifBranch("actual.name"), Type: git.RefTypeRemoteBranch, Sha: "4444444444444444444444444444444444444444"}) // the server-side id of a branch is never used
	}
	git.VerifLsRemoteFails = false
	onServer := func(name string) bool {
		for _, r := range git.VerifActualRefs {
			if r.Name == name {
				return true
			}
		}
		return false
	}
	s := NewGitScannerForPush(nil, "origin", nil, nil)
	s.mode = ScanRangeToRemoteMode
	// every excluded commit is a cached branch that the server still has
	for _, sk := range s.skippedRefs {
		found := false
		for _, c := range git.VerifCachedRefs {
			if sk == "^"+c.Sha && onServer(c.Name) {
				found = true
			}
		}
		verifAssert(found, "only remote-tracking branches that still exist on the server are excluded from the scan")
	}
	stale := 0
	for _, c := range git.VerifCachedRefs {
		if onServer(c.Name) {
			found := false
			for _, sk := range s.skippedRefs {
				if sk == "^"+c.Sha {
					found = true
				}
			}
			verifAssert(found, "a verified remote-tracking branch is used as a boundary")
		} else {
			stale++
		}
	}
	// what reaches rev-list for one pushed commit
	local := verifRefSha("local")
	stdin, args, err := git.VerifRevListStdin([]string{local}, nil, &git.ScanRefsOptions{
		Mode: git.ScanningMode(s.mode), Remote: s.remote, SkippedRefs: s.skippedRefs, Names: map[string]string{},
	})
	verifAssert(err == nil, "building the rev-list call succeeds")
	usesAllTracking := false
	for _, a := range args {
		if strings.HasPrefix(a, "--remotes") || a == "--all" || a == "--branches" {
			usesAllTracking = true
		}
	}
	if stale > 0 {
		verifCover("stale-tracking-branch")
		// --remotes=<remote> makes Git exclude every cached remote-tracking
		// branch, including the stale ones
		verifKnown("C03-F10-all-cached-refs-stale", stale == nc)
		verifAssert(!usesAllTracking, "a stale remote-tracking branch is not excluded wholesale through --remotes")
	}
	lines := strings.Split(stdin, "\n")
	verifAssert(lines[0] == local, "the pushed commit is walked")
	for _, l := range lines[1:] {
		ok := false
		for _, c := range git.VerifCachedRefs {
			if l == "^"+c.Sha && onServer(c.Name) {
				ok = true
			}
		}
		verifAssert(ok, "every negated revision given to rev-list is a branch the server still has")
	}
}

// VerifC03_SmallBlobFilter: of the objects `git cat-file --batch-check`
// describes, every blob smaller than the pointer cut-off is kept as a pointer
// candidate, larger blobs are only lock candidates, and other object types
// are dropped; lines stay in step with requests.
func VerifC03_SmallBlobFilter() {
	var text string
	type want struct {
		lfs, git string
	}
	var wants []want
	n := 1 + verifChoose("lines", 2)
	for k := 0; k < n; k++ {
		oid := verifNondetString("oid")
		verifAssume(len(oid) == []int{40, 64}[verifChoose("oid.len", 2)])
		verifAssumeAlphabet(oid, "09af")
		typ := []string{"blob", "tree", "commit", "tag"}[verifChoose("type", 4)]
		size := verifNondetInt("size")
		verifAssume(size >= 0 && size <= 1<<40)
		text += oid + " " + typ + " " + strconv.Itoa(size) + "\n"
		switch {
		case typ == "blob" && size < 1024:
			wants = append(wants, want{oid, ""})
		case typ == "blob":
			wants = append(wants, want{"", oid})
		default:
			wants = append(wants, want{"", ""})
		}
	}
	sc := &catFileBatchCheckScanner{s: bufio.NewScanner(strings.NewReader(text)), limit: blobSizeCutoff}
	for k := 0; k < n; k++ {
		sc.Scan()
		verifAssert(sc.Err() == nil, "scanning a well-formed line does not fail")
		verifAssert(sc.LFSBlobOID() == wants[k].lfs, "a blob under 1024 bytes is a pointer candidate, nothing else is")
		verifAssert(sc.GitBlobOID() == wants[k].git, "a blob of 1024 bytes or more is a plain Git blob")
		if wants[k].lfs != "" {
			verifCover("small-blob")
		} else if wants[k].git != "" {
			verifCover("large-blob")
		} else {
			verifCover("not-a-blob")
		}
	}
	verifAssert(blobSizeCutoff == 1024, "the pointer cut-off is the documented 1024 bytes")
}
