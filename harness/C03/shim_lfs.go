package lfs

import (
	"os"

	"github.com/git-lfs/git-lfs/v3/config"
)

// VerifTmpDir is set by harnesses of other packages; lfs.TempFile is redirected here.
var VerifTmpDir string

func verifTempFileShim(cfg *config.Configuration, pattern string) (*os.File, error) {
	os.MkdirAll(VerifTmpDir, 0755)
	return os.CreateTemp(VerifTmpDir, pattern)
}
// VerifScan records one scan the push code asked for.
type VerifScan struct {
	Kind    string // "range-to-remote" or "ref-with-deleted"
	Include string
	Exclude []string
}

var VerifScans []VerifScan

func verifScanMultiRangeToRemoteStub(s *GitScanner, include string, exclude []string, cb GitScannerFoundPointer) error {
	VerifScans = append(VerifScans, VerifScan{"range-to-remote", include, append([]string(nil), exclude...)})
	return nil
}

func verifScanRefWithDeletedStub(s *GitScanner, ref string, cb GitScannerFoundPointer) error {
	VerifScans = append(VerifScans, VerifScan{"ref-with-deleted", ref, nil})
	return nil
}
