package tq

import (
	"sync"
)

// VerifC03_Partition: before an upload batch is handed to an adapter every
// object whose file in local storage is absent or has another length than the
// pointer says is taken out and reported (missing / corrupt), never sent; an
// object that is present with the right length is always sent.
func VerifC03_Partition() {
	root := verifTempDir()
	q := &TransferQueue{direction: Upload, client: &tqClient{}, manifest: &concreteManifest{}, trMutex: &sync.Mutex{}, rc: newRetryCounter()}
	content := verifNondetString("object.content")
	verifAssume(len(content) >= 1 && len(content) <= 4000000)
	size := verifNondetInt64("pointer.size")
	path := root + "/lfs/objects/aa/bb/oid-a"
	state := verifChoose("object.state", 2)
	if state == 0 {
		verifFSWrite(path, content, 0444)
	} else {
		verifFSWrite(root+"/lfs/objects/.keep", "", 0644)
	}
	t := &Transfer{Name: "file.bin", Oid: "oid-a", Size: size, Path: path}
	present, results := q.partitionTransfers([]*Transfer{t})
	verifAssert(len(present)+len(results) == 1, "an object is either sent or reported, never both or neither")
	ok := state == 0 && size == int64(len(content))
	if ok {
		verifCover("present")
		verifAssert(len(present) == 1 && present[0] == t, "an intact object is sent")
	} else {
		verifAssert(len(results) == 1 && results[0].Transfer == t && results[0].Error != nil, "an object that cannot be sent is reported with an error")
		m, isMalformed := results[0].Error.(*MalformedObjectError)
		switch {
		case size < 0:
			verifCover("negative-size")
		case state == 1:
			verifCover("missing")
			verifAssert(isMalformed && m.Missing() && m.Oid == "oid-a" && m.Name == "file.bin", "an absent object is reported as missing, by name and id")
		default:
			verifCover("wrong-length")
			verifAssert(isMalformed && m.Corrupt() && m.Oid == "oid-a", "an object of the wrong length is reported as corrupt")
		}
	}
}

// VerifC03_MissingSource: an upload batch in which the server asks for an
// object (upload action) that the client marked as having no local source
// fails as a whole before anything is handed to an adapter; if the server
// already has the object (no action) the batch goes on.
func VerifC03_MissingSource() {
	q := &TransferQueue{
		direction: Upload,
		client:    &tqClient{},
		manifest:  &concreteManifest{},
		transfers: make(map[string]*objects),
		errorc:    make(chan error, 16),
		trMutex:   &sync.Mutex{},
		wait:      newAbortableWaitGroup(),
		rc:        newRetryCounter(),
		batchSize: 4,
	}
	oids := []string{"oid-a", "oid-b"}
	missing := map[string]bool{"oid-a": verifNondetBool("a.missing"), "oid-b": verifNondetBool("b.missing")}
	var b batch
	for _, o := range oids {
		t := &objectTuple{Name: "n-" + o, Path: "/p/" + o, Oid: o, Size: 5, Missing: missing[o]}
		q.transfers[o] = (&objects{}).Append(t)
		q.wait.Add(1)
		b = append(b, t)
	}
	verifInflight = nil
	verifBatchErr = nil
	resp := &BatchResponse{TransferAdapterName: "basic"}
	wanted := map[string]bool{}
	for _, o := range oids {
		tr := &Transfer{Oid: o, Size: 5, Missing: missing[o]}
		if verifNondetBool("server.wants." + o) {
			tr.Actions = ActionSet{"upload": &Action{Href: "https://example.com/" + o}}
			wanted[o] = true
		}
		resp.Objects = append(resp.Objects, tr)
	}
	verifBatchResp = resp
	// what the batch request carries: the missing flag must travel with the object
	for _, t := range b.ToTransfers() {
		verifAssert(t.Missing == missing[t.Oid], "the missing-source flag travels with the object into the batch request")
	}
	_, err := q.enqueueAndCollectRetriesFor(b)
	lost := (missing["oid-a"] && wanted["oid-a"]) || (missing["oid-b"] && wanted["oid-b"])
	if lost {
		verifCover("missing-and-wanted")
		verifAssert(err != nil, "a batch that needs an object without local source fails")
		verifAssert(len(verifInflight) == 0, "and nothing of it is uploaded")
	} else {
		verifCover("complete")
		if err != nil {
			// (failing although nothing is missing loses no object: not C03's subject)
			return
		}
		for _, o := range oids {
			n := 0
			for _, t := range verifInflight {
				if t.Oid == o {
					n++
				}
			}
			if wanted[o] {
				verifAssert(n >= 1, "every object the server asks for is handed to the adapter")
			}
		}
	}
}
