package git

import verif_io "io"

// scripted answers of `git show-ref` (remote-tracking refs cached locally) and
// `git ls-remote --heads` (branches the server has now)
var (
	VerifCachedRefs []*Ref
	VerifActualRefs []*Ref
	VerifLsRemoteFails bool
)

func verifCachedRemoteRefsStub(remoteName string) ([]*Ref, error) { return VerifCachedRefs, nil }

func verifRemoteRefsStub(remoteName string, withTags bool) ([]*Ref, error) {
	if VerifLsRemoteFails {
		return nil, verifLsErr("ls-remote failed")
	}
	return VerifActualRefs, nil
}

type verifLsErr string

func (e verifLsErr) Error() string { return string(e) }

// VerifRevListStdin exposes revListArgs to the harnesses of other packages.
func VerifRevListStdin(include, exclude []string, opt *ScanRefsOptions) (string, []string, error) {
	r, args, err := revListArgs(include, exclude, opt)
	if err != nil || r == nil {
		return "", args, err
	}
	b, _ := verif_io.ReadAll(r)
	return string(b), args, nil
}


// scripted `git cat-file --batch` object for the pointer scanner
var (
	VerifBlobSha     string
	VerifBlobContent string
)

func verifObjScanStub(s *ObjectScanner, oid string) bool { return true }
func verifObjSha1Stub(s *ObjectScanner) string            { return VerifBlobSha }
func verifObjSizeStub(s *ObjectScanner) int64             { return int64(len(VerifBlobContent)) }
func verifObjContentsStub(s *ObjectScanner) verif_io.Reader {
	return &verifStringReader{s: VerifBlobContent}
}
func verifObjErrStub(s *ObjectScanner) error { return nil }

type verifStringReader struct {
	s   string
	off int
}

func (r *verifStringReader) Read(p []byte) (int, error) {
	if r.off >= len(r.s) {
		return 0, verif_io.EOF
	}
	n := copy(p, r.s[r.off:])
	r.off += n
	return n, nil
}
