package git

import "strings"

// verifSha: an arbitrary object id as Git prints it (40 lower-case hex
// digits), the all-zero id, or (empty=true) the empty string.
func verifSha(name string, mayBeZero bool) string {
	n := 2
	if mayBeZero {
		n = 4
	}
	switch verifChoose(name+".kind", n) {
	case 2:
		return strings.Repeat("0", 40)
	case 3:
		return ""
	case 1:
		// a second family: SHA-256 repositories
		s := verifNondetString(name + ".sha256")
		verifAssumeAlphabet(s, "09af")
		verifAssume(len(s) == 64 && s != strings.Repeat("0", 64))
		return s
	}
	s := verifNondetString(name)
	verifAssumeAlphabet(s, "09af")
	verifAssume(len(s) == 40 && s != strings.Repeat("0", 40))
	return s
}

func verifIsZero(s string) bool {
	return s == "" || s == strings.Repeat("0", 40) || s == strings.Repeat("0", 64)
}

// VerifC03_RevListArgs: what `git rev-list` is asked when a push is scanned
// (range-to-remote mode): the local commit is always walked, the only commits
// excluded are the ones the caller named (remote side of the ref updates and
// remote-tracking refs verified to exist on the server), zero ids stand for
// "nothing", and no option limits the walk. With no verified remote-tracking
// refs the walk falls back to --not --remotes=<remote>.
func VerifC03_RevListArgs() {
	include := verifSha("include", false)
	nex := verifChoose("excludes", 3)
	var exclude []string
	for k := 0; k < nex; k++ {
		exclude = append(exclude, verifSha("exclude", true))
	}
	nsk := verifChoose("skipped", 3)
	var skipped []string
	for k := 0; k < nsk; k++ {
		skipped = append(skipped, "^"+verifSha("skipped", false))
	}
	opt := &ScanRefsOptions{Mode: ScanRangeToRemoteMode, Remote: "origin", SkippedRefs: skipped, Names: map[string]string{}}
	stdin, args, err := VerifRevListStdin([]string{include}, exclude, opt)
	verifAssert(err == nil, "building the rev-list call succeeds")

	var want []string
	want = append(want, include)
	for _, x := range exclude {
		if !verifIsZero(x) {
			want = append(want, "^"+x)
		}
	}
	want = append(want, skipped...)
	lines := strings.Split(stdin, "\n")
	verifAssert(len(lines) == len(want), "rev-list reads one revision per line: the local commit, the remote sides, the verified remote refs")
	for k := range want {
		verifAssert(lines[k] == want[k], "each revision is passed as given, remote sides negated")
	}
	verifAssert(lines[0] == include, "the pushed commit itself is always walked")

	wantArgs := []string{"rev-list", "--objects", "--ignore-missing"}
	if nsk == 0 {
		verifCover("fallback-remotes")
		wantArgs = append(wantArgs, "--not", "--remotes=origin")
	} else {
		verifCover("verified-refs")
	}
	wantArgs = append(wantArgs, "--stdin", "--")
	verifAssert(len(args) == len(wantArgs), "no further option limits the walk")
	for k := range wantArgs {
		verifAssert(k < len(args) && args[k] == wantArgs[k], "rev-list options are the documented ones")
	}
}

// VerifC03_ShowRefLine: a `git show-ref` line for a remote-tracking branch of
// the push remote yields exactly that branch name and id; other lines none.
func VerifC03_ShowRefLine() {
	sha := verifNondetString("sha")
	verifAssumeAlphabet(sha, "09af")
	verifAssume(len(sha) == 40)
	name := verifNondetString("branch")
	verifAssumeAlphabet(name, "az09//--..__")
	verifAssume(len(name) >= 1 && len(name) <= 24)
	prefix := []string{"refs/remotes/origin/", "refs/remotes/other/", "refs/heads/", "refs/tags/", "refs/remotes/origin"}[verifChoose("namespace", 5)]
	gotSha, gotName, ok := parseShowRefLine("refs/remotes/origin/", sha+" "+prefix+name)
	if prefix == "refs/remotes/origin/" {
		verifCover("tracking-branch")
		verifAssert(ok && gotSha == sha && gotName == name, "a remote-tracking branch of the remote is returned with its id")
	} else {
		verifCover("other-ref")
		verifAssert(!ok || (gotSha == sha && prefix+name == "refs/remotes/origin/"+gotName), "no other ref is taken for a remote-tracking branch")
	}
	lsSha, ns, lsName, lsOk := parseLsRemoteLine(sha + "\t" + []string{"refs/heads/", "refs/tags/", "refs/pull/"}[verifChoose("ls.namespace", 3)] + name)
	if lsOk {
		verifCover("ls-remote")
		verifAssert(lsSha == sha && lsName == name && (ns == "heads" || ns == "tags"), "an ls-remote line names the branch or tag it lists")
	}
}
