package tq

// a finished queue that reported the given errors (for the push's error
// accounting, which only looks at Wait and Errors)
func VerifQueueWithErrors(errs []error) *TransferQueue { return &TransferQueue{errors: errs} }

func verifWaitStub3(q *TransferQueue) {}

func VerifMissingObjectError(name, oid string) error { return newObjectMissingError(name, oid) }
func VerifCorruptObjectError(name, oid string) error { return newCorruptObjectError(name, oid) }
