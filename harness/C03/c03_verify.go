package tq

import (
	"net/http"

	"github.com/git-lfs/git-lfs/v3/lfsapi"
)

// VerifC03_VerifyOutcome: an upload whose batch answer carries a verify
// action counts as done only if the server confirmed it: when no verify
// attempt that is made succeeds (transport errors, or error statuses - which
// the API client hands back as a response AND an error) verifyUpload reports
// an error.
func VerifC03_VerifyOutcome() {
	verifSeenReqs = nil
	rel, _, _, _ := verifAction()
	t := &Transfer{Oid: "98ea6e4f216f2fb4b69fff9b3a44842c38686ca685f3f55dc48c5d3fb1107be4", Size: 12,
		Authenticated: verifNondetBool("authenticated"), Actions: ActionSet{"verify": rel}}
	attempts := 0
	okAt := verifNondetInt("succeeds.at") // 1-based attempt that succeeds; 0 = never
	verifAssume(okAt >= 0 && okAt <= 6)
	failKind := verifChoose("failure.kind", 2)
	api := lfsapi.VerifNewClient(verifEndpoints{url: "https://lfs.example.com/repo.git/info/lfs"})
	lfsapi.VerifAPIAnswer = func(remote string, req *http.Request) (*http.Response, error) {
		attempts++
		if attempts == okAt {
			return verifJSONResponse(200, "{}"), nil
		}
		if failKind == 0 {
			return nil, verifNetErr("connection reset")
		}
		// DoWithAuth / Do turn an error status into an error AND hand the
		// response back (lfshttp.(*Client).do: `return res, c.handleResponse(res)`)
		return verifJSONResponse([]int{500, 404, 422}[verifChoose("error.status", 3)], "{\"message\":\"no\"}"), verifNetErr("error status")
	}
	err := verifyUpload(api, "origin", t)
	const configured = 3 // lfs.transfer.maxverifies default, the floor the code enforces
	if okAt >= 1 && okAt <= attempts {
		// (how many attempts are made, and that a confirmed upload is reported
		// as a success, is not C03's subject)
		verifCover("verified")
	} else {
		verifCover("never-verified")
		verifAssert(err != nil, "an upload the server never confirmed is reported as failed")
	}
	if attempts == configured {
		verifCover("every-configured-attempt-made")
	}
}

type verifNetErr string

func (e verifNetErr) Error() string { return string(e) }
