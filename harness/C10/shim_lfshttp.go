package lfshttp

import (
	verif_http "net/http"
	verif_url "net/url"

	"github.com/git-lfs/git-lfs/v3/config"
	"github.com/git-lfs/git-lfs/v3/creds"
)

// VerifTransport serves every request of clients made by the stubbed HttpClient.
var VerifTransport verif_http.RoundTripper

func verifHttpClientStub(c *Client, u *verif_url.URL, access creds.AccessMode) (*verif_http.Client, error) {
	return &verif_http.Client{Transport: VerifTransport, CheckRedirect: func(*verif_http.Request, []*verif_http.Request) error { return verif_http.ErrUseLastResponse }}, nil
}

// VerifNewClient: an HTTP client with an empty Git configuration.
func VerifNewClient() *Client {
	gitEnv := config.EnvironmentOf(config.MapFetcher(map[string][]string{}))
	osEnv := config.EnvironmentOf(config.MapFetcher(map[string][]string{}))
	return &Client{gitEnv: gitEnv, osEnv: osEnv, uc: config.NewURLConfig(gitEnv), credHelperContext: creds.NewCredentialHelperContext(gitEnv, osEnv)}
}
