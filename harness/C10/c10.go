package lfshttp

import (
	"net/http"
	"net/url"
	"strings"
)

func verifHost(tag string) string {
	name := verifNondetString(tag + ".name")
	verifAssume(len(name) >= 1 && len(name) <= 12)
	verifAssumeAlphabet(name, "az09..--")
	if verifChoose(tag+".has.port", 2) == 1 {
		port := verifNondetString(tag + ".port")
		verifAssume(len(port) >= 1 && len(port) <= 5)
		verifAssumeAlphabet(port, "09")
		return name + ":" + port
	}
	return name
}

// VerifC10_RedirectAuth: a request built for a redirect carries the original
// Authorization header only to the same host:port, and an https request is
// never redirected to plain http.
func VerifC10_RedirectAuth() {
	schemes := []string{"https", "http"}
	oldScheme := schemes[verifChoose("old.scheme", 2)]
	newScheme := schemes[verifChoose("new.scheme", 2)]
	oldHost := verifHost("old")
	newHost := verifHost("new")
	auth := verifNondetString("authorization")
	verifAssume(len(auth) >= 1 && len(auth) <= 16)
	verifAssumeAlphabet(auth, "azAZ09  ==")
	req := &http.Request{
		Method: "POST",
		URL:    &url.URL{Scheme: oldScheme, Host: oldHost, Path: "/objects/batch"},
		Header: http.Header{},
	}
	req.Header.Set("Authorization", auth)
	req.Header.Set("Accept", "application/vnd.git-lfs+json")
	// (headers reach this function only through http.Header.Set, i.e. under
	// canonical keys: a raw "authorization" map key is not a reachable input)
	location := verifURL(newScheme, newHost, "/redirected")
	newReq, err := newRequestForRetry(req, location)
	if oldScheme == "https" && newScheme == "http" {
		verifCover("downgrade")
		verifAssert(err != nil && newReq == nil, "an https to http redirect is refused")
		return
	}
	verifAssert(err == nil && newReq != nil, "other redirects produce a request")
	verifAssert(newReq.URL.Host == newHost && newReq.URL.Scheme == newScheme, "the new request goes to the redirect target")
	leaked := false
	for k, vs := range newReq.Header {
		if strings.EqualFold(k, "authorization") && len(vs) > 0 {
			leaked = true
		}
	}
	if oldHost != newHost {
		verifCover("other-host")
		verifAssert(!leaked, "Authorization is never forwarded to a different host or port")
	} else {
		verifCover("same-host")
		verifAssert(newReq.Header.Get("Authorization") == auth, "Authorization is kept for the same host")
	}
	verifAssert(newReq.Header.Get("Accept") == "application/vnd.git-lfs+json", "other headers are copied")
	verifAssert(newReq.Method == "POST", "the method is preserved")
}
