package lfshttp

import (
	"net/http"
	"net/url"
	"strings"
)

func verifHost(tag string) string {
	name := verifNondetString(tag + ".name")
	verifAssume(len(name) >= 1 && len(name) <= 12)
	verifAssumeAlphabet(name, "az09..--")
	if verifChoose(tag+".has.port", 2) == 1 {
		port := verifNondetString(tag + ".port")
		verifAssume(len(port) >= 1 && len(port) <= 5)
		verifAssumeAlphabet(port, "09")
		return name + ":" + port
	}
	return name
}

// VerifC10_RedirectAuth: a request built for a redirect carries the original
// Authorization header only to the same host:port, and an https request is
// never redirected to plain http.
func VerifC10_RedirectAuth() {
	schemes := []string{"https", "http"}
	oldScheme := schemes[verifChoose("old.scheme", 2)]
	newScheme := schemes[verifChoose("new.scheme", 2)]
	oldHost := verifHost("old")
	newHost := verifHost("new")
	auth := verifNondetString("authorization")
	verifAssume(len(auth) >= 1 && len(auth) <= 16)
	verifAssumeAlphabet(auth, "azAZ09  ==")
	req := &http.Request{
		Method: "POST",
		URL:    &url.URL{Scheme: oldScheme, Host: oldHost, Path: "/objects/batch"},
		Header: http.Header{},
	}
	req.Header.Set("Authorization", auth)
	req.Header.Set("Accept", "application/vnd.git-lfs+json")
	// (headers reach this function only through http.Header.Set, i.e. under
	// canonical keys: a raw "authorization" map key is not a reachable input)
	location := verifURL(newScheme, newHost, "/redirected")
	newReq, err := newRequestForRetry(req, location)
	if oldScheme == "https" && newScheme == "http" {
		verifCover("downgrade")
		verifAssert(err != nil && newReq == nil, "an https to http redirect is refused")
		return
	}
	if err != nil || newReq == nil {
		// (refusing a redirect is always allowed)
		return
	}
	if newReq.URL.Host == newHost && newReq.URL.Scheme == newScheme {
		verifCover("goes-to-the-redirect-target")
	}
	leaked := false
	for k, vs := range newReq.Header {
		if strings.EqualFold(k, "authorization") && len(vs) > 0 {
			leaked = true
		}
	}
	if newReq.URL.Host != oldHost {
		verifCover("other-host")
		verifAssert(!leaked, "Authorization is never forwarded to a different host or port")
	} else {
		verifCover("same-host")
		if newReq.Header.Get("Authorization") == auth {
			verifCover("kept-for-the-same-host")
		}
	}
	if oldScheme == "https" && newReq.URL.Scheme == "http" {
		verifAssert(!leaked, "nor to a plain-http request reached from https")
	}
}

// ---- redirect chains: hop limit

type verifTransport struct{}

var (
	verifHops     int
	verifChainLen int
	verifHopHosts []string
)

// verifServe: the scripted server: the first verifChainLen requests are
// answered with a redirect to the next host, then 200.
func verifServe(req *http.Request) (*http.Response, error) {
	k := verifHops
	verifHops++
	res := &http.Response{StatusCode: 200, Header: http.Header{}, Body: http.NoBody, Request: req}
	if k < verifChainLen {
		res.StatusCode = 307
		res.Header.Set("Location", "https://"+verifHopHosts[k%len(verifHopHosts)]+"/next")
	}
	return res, nil
}

func (verifTransport) RoundTrip(req *http.Request) (*http.Response, error) { return verifServe(req) }

func verifClientDo(cli *http.Client, req *http.Request) (*http.Response, error) { return verifServe(req) }

// VerifC10_RedirectChain: a chain of redirects is followed for a small fixed
// number of hops only, then refused with an error.
func VerifC10_RedirectChain() {
	verifOverride("(*net/http.Client).Do", verifClientDo)
	verifOverride("github.com/rubyist/tracerx.Printf", func(format string, args ...interface{}) {})
	verifHops = 0
	verifChainLen = verifChoose("chain.length", verifBound("chain", 8, 12))
	verifHopHosts = []string{"a.example.com", "b.example.com", "c.example.com"}
	c := &Client{}
	cli := &http.Client{Transport: verifTransport{}, CheckRedirect: func(*http.Request, []*http.Request) error { return http.ErrUseLastResponse }}
	req, err := http.NewRequest("GET", "https://start.example.com/objects/batch", nil)
	verifAssert(err == nil, "request construction")
	verifKnown("C10-F15-redirect-hop-limit-not-enforced", verifChainLen >= 3)
	res, derr := c.doWithRedirects(cli, req, "origin", nil)
	verifCover("chain-followed")
	verifAssert(verifHops <= 3, "a redirect chain is cut off after a small fixed number of hops")
	if verifChainLen < 3 {
		if derr == nil && res != nil && res.StatusCode == 200 {
			verifCover("short-chain-followed")
		}
	} else {
		verifAssert(derr != nil, "a long chain is refused with an error")
	}
}

// ---- the redirect as the client performs it: status + Location from the server

var verifLocation string

func verifRedirectOnce(cli *http.Client, req *http.Request) (*http.Response, error) {
	res := &http.Response{StatusCode: 307, Header: http.Header{}, Body: http.NoBody, Request: req}
	res.Header.Set("Location", verifLocation)
	return res, nil
}

type verifRedirectTransport struct{}

func (verifRedirectTransport) RoundTrip(req *http.Request) (*http.Response, error) {
	return verifRedirectOnce(nil, req)
}

// VerifC10_RedirectLocation: DoWithRedirect with the Location header as the
// server may spell it - absolute, scheme-relative ("//host/path") or
// path-only: the request it builds for the redirect carries Authorization only
// if it goes to the same host[:port], and https is never downgraded.
func VerifC10_RedirectLocation() {
	verifOverride("(*net/http.Client).Do", verifRedirectOnce)
	verifOverride("github.com/rubyist/tracerx.Printf", func(format string, args ...interface{}) {})
	schemes := []string{"https", "http"}
	oldScheme := schemes[verifChoose("old.scheme", 2)]
	oldHost := verifHost("old")
	newHost := verifHost("new")
	auth := "Basic dXNlcjpwYXNz"
	req := &http.Request{Method: "POST", URL: &url.URL{Scheme: oldScheme, Host: oldHost, Path: "/objects/batch"}, Header: http.Header{}}
	req.Header.Set("Authorization", auth)
	wantScheme, wantHost := oldScheme, oldHost
	switch verifChoose("location.kind", 3) {
	case 0: // absolute
		wantScheme = schemes[verifChoose("new.scheme", 2)]
		wantHost = newHost
		verifLocation = verifURL(wantScheme, newHost, "/redirected")
	case 1: // scheme-relative: another host, same scheme
		wantHost = newHost
		verifLocation = verifURLRel(newHost, "/redirected")
	case 2: // path only: same server
		verifLocation = "/redirected"
	}
	c := &Client{}
	cli := &http.Client{Transport: verifRedirectTransport{}, CheckRedirect: func(*http.Request, []*http.Request) error { return http.ErrUseLastResponse }}
	newReq, res, err := c.DoWithRedirect(cli, req, "origin", nil)
	if oldScheme == "https" && wantScheme == "http" {
		verifCover("downgrade-refused")
		verifAssert(err != nil && newReq == nil, "an https to http redirect is refused")
		return
	}
	if err != nil || newReq == nil {
		// (refusing a redirect is always allowed)
		return
	}
	_ = res
	if newReq.URL.Host == wantHost && newReq.URL.Scheme == wantScheme {
		verifCover("goes-where-the-location-says")
	}
	got := newReq.Header.Get("Authorization")
	if newReq.URL.Host != oldHost {
		verifCover("redirect-to-other-host")
		verifAssert(got == "", "Authorization is never forwarded to a different host or port")
	} else {
		verifCover("redirect-to-same-host")
	}
	if oldScheme == "https" && newReq.URL.Scheme == "http" {
		verifAssert(got == "", "nor to a plain-http request reached from https")
	}
}
