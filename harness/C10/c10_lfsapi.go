package lfsapi

import (
	"net/http"
	"net/url"

	"github.com/git-lfs/git-lfs/v3/creds"
	"github.com/git-lfs/git-lfs/v3/lfshttp"
)

// an endpoint finder that knows one remote
type verifEF struct{ gitRemote string }

func (e verifEF) NewEndpointFromCloneURL(operation, rawurl string) lfshttp.Endpoint {
	return lfshttp.Endpoint{Url: rawurl}
}
func (e verifEF) NewEndpoint(operation, rawurl string) lfshttp.Endpoint { return lfshttp.Endpoint{Url: rawurl} }
func (e verifEF) Endpoint(operation, remote string) lfshttp.Endpoint    { return lfshttp.Endpoint{} }
func (e verifEF) RemoteEndpoint(operation, remote string) lfshttp.Endpoint {
	return lfshttp.Endpoint{}
}
func (e verifEF) GitRemoteURL(remote string, forpush bool) string { return e.gitRemote }
func (e verifEF) AccessFor(rawurl string) creds.Access            { return creds.NewAccess(creds.BasicAccess, rawurl) }
func (e verifEF) SetAccess(access creds.Access)                   {}
func (e verifEF) GitProtocol() string                             { return "https" }

func verifHostPort(tag string) string {
	// a few fixed names plus an arbitrary one; a port out of {none, 443, 80, arbitrary}
	var name string
	switch verifChoose(tag+".name.kind", 2) {
	case 0:
		name = "git.example.com"
	case 1:
		name = verifNondetString(tag + ".name")
		verifAssume(len(name) >= 1 && len(name) <= 12)
		verifAssumeAlphabet(name, "az09..--")
	}
	switch verifChoose(tag+".port.kind", 4) {
	case 1:
		return name + ":443"
	case 2:
		return name + ":80"
	case 3:
		port := verifNondetString(tag + ".port")
		verifAssume(len(port) >= 1 && len(port) <= 5)
		verifAssumeAlphabet(port, "09")
		return name + ":" + port
	}
	return name
}

// VerifC10_CredentialURL: which URL's credentials are attached to an API
// request. Credentials embedded in the LFS URL or in the Git remote URL
// (user:password@) are put on the request only when that URL has the
// request's scheme and host[:port]; and the URL for which the credential
// helper (or netrc, askpass) is asked always has the request's scheme and
// host[:port], so that what it answers is sent back to where it belongs.
func VerifC10_CredentialURL() {
	schemes := []string{"https", "http"}
	reqScheme, apiScheme, remScheme := schemes[verifChoose("request.scheme", 2)], schemes[verifChoose("api.scheme", 2)], schemes[verifChoose("remote.scheme", 2)]
	reqHost, apiHost, remHost := verifHostPort("request"), verifHostPort("api"), verifHostPort("remote")
	req := &http.Request{Method: "POST", URL: &url.URL{Scheme: reqScheme, Host: reqHost, Path: "/repo.git/info/lfs/objects/batch"}, Header: http.Header{}}
	apiUser := verifChoose("api.userinfo", 2) == 1
	remUser := verifChoose("remote.userinfo", 2) == 1
	api := verifURL(apiScheme, apiHost, "/repo.git/info/lfs")
	if apiUser {
		api = verifURLUser(apiScheme, "apiuser", "apipass", apiHost, "/repo.git/info/lfs")
	}
	rem := verifURL(remScheme, remHost, "/repo.git")
	if remUser {
		rem = verifURLUser(remScheme, "gituser", "gitpass", remHost, "/repo.git")
	}
	ef := verifEF{gitRemote: rem}
	credsURL, err := getCredURLForAPI(ef, "download", "origin", lfshttp.Endpoint{Url: api}, req)
	verifAssert(err == nil, "well-formed URLs are accepted")
	auth := req.Header.Get("Authorization")
	sameAsAPI := reqScheme == apiScheme && reqHost == apiHost
	sameAsRemote := reqScheme == remScheme && reqHost == remHost
	if auth != "" {
		verifCover("url-credentials-used")
		// Basic base64(user:pass): which URL did it come from?
		verifAssert((apiUser && sameAsAPI) || (remUser && sameAsRemote), "credentials embedded in a URL are only sent to that URL's own scheme and host[:port]")
	}
	if credsURL != nil {
		verifCover("helper-asked")
		verifAssert(credsURL.Scheme == reqScheme && credsURL.Host == reqHost, "the credential helper is asked for the scheme and host[:port] the request goes to")
	}
}

// ---- redirect chains on the authenticated API path

type verifChainTransport struct{}

var (
	verifAuthHops     int
	verifAuthChainLen int
)

func verifAuthServe(req *http.Request) (*http.Response, error) {
	k := verifAuthHops
	verifAuthHops++
	res := &http.Response{StatusCode: 200, Header: http.Header{}, Body: http.NoBody, Request: req}
	if k < verifAuthChainLen {
		res.StatusCode = 307
		res.Header.Set("Location", "https://"+[]string{"a.example.com", "b.example.com", "c.example.com"}[k%3]+"/next")
	}
	return res, nil
}

func (verifChainTransport) RoundTrip(req *http.Request) (*http.Response, error) { return verifAuthServe(req) }

func verifAuthClientDo(cli *http.Client, req *http.Request) (*http.Response, error) {
	return verifAuthServe(req)
}

// VerifC10_AuthRedirectChain: API requests (batch, locks, verify) go through
// DoWithAuth; a server that keeps redirecting them is followed for a small
// fixed number of hops only, then refused.
func VerifC10_AuthRedirectChain() {
	verifOverride("(*net/http.Client).Do", verifAuthClientDo)
	verifOverride("github.com/rubyist/tracerx.Printf", func(format string, args ...interface{}) {})
	lfshttp.VerifTransport = verifChainTransport{}
	verifAuthHops = 0
	verifAuthChainLen = verifChoose("chain.length", verifBound("chain", 8, 12))
	hc := lfshttp.VerifNewClient()
	c := &Client{Endpoints: verifEF{gitRemote: "https://start.example.com/repo.git"}, client: hc,
		credContext: creds.NewCredentialHelperContext(hc.GitEnv(), hc.OSEnv()), access: creds.AllAccessModes()}
	req, err := http.NewRequest("POST", "https://start.example.com/repo.git/info/lfs/objects/batch", nil)
	verifAssert(err == nil, "request construction")
	verifKnown("C10-F16-auth-path-hop-limit-not-enforced", verifAuthChainLen >= 3)
	res, derr := c.DoWithAuth("origin", creds.NewAccess(creds.NoneAccess, "https://start.example.com/repo.git/info/lfs"), req)
	verifCover("chain-followed")
	verifAssert(verifAuthHops <= 3, "a redirect chain is cut off after a small fixed number of hops")
	if verifAuthChainLen < 3 {
		if derr == nil && res != nil && res.StatusCode == 200 {
			verifCover("short-chain-followed")
		}
	} else {
		verifAssert(derr != nil, "a long chain is refused with an error")
	}
}
