package creds

func verifCredHost(tag string) string {
	name := "git.example.com"
	if verifChoose(tag+".name.kind", 2) == 1 {
		name = verifNondetString(tag + ".name")
		verifAssume(len(name) >= 1 && len(name) <= 12)
		verifAssumeAlphabet(name, "az09..--")
	}
	switch verifChoose(tag+".port.kind", 3) {
	case 1:
		return name + ":443"
	case 2:
		port := verifNondetString(tag + ".port")
		verifAssume(len(port) >= 1 && len(port) <= 5)
		verifAssumeAlphabet(port, "09")
		return name + ":" + port
	}
	return name
}

// VerifC10_CredentialCache: credentials that were approved for one
// protocol://host[:port]/path are handed out by the in-process credential
// cache only for exactly that protocol, host[:port] and path; the cache sits
// in front of the credential helpers, so whatever it returns is sent to the
// host that is asked about.
func VerifC10_CredentialCache() {
	protos := []string{"https", "http"}
	paths := []string{"", "repo.git"}
	p1, p2 := protos[verifChoose("approved.protocol", 2)], protos[verifChoose("asked.protocol", 2)]
	h1, h2 := verifCredHost("approved"), verifCredHost("asked")
	path1, path2 := paths[verifChoose("approved.path", 2)], paths[verifChoose("asked.path", 2)]
	cache := NewCredentialCacher()
	approved := Creds{"protocol": []string{p1}, "host": []string{h1}, "username": []string{"alice"}, "password": []string{"secret-of-" + p1}}
	if path1 != "" {
		approved["path"] = []string{path1}
	}
	cache.Approve(approved)
	ask := Creds{"protocol": []string{p2}, "host": []string{h2}}
	if path2 != "" {
		ask["path"] = []string{path2}
	}
	got, err := cache.Fill(ask)
	same := p1 == p2 && h1 == h2 && path1 == path2
	if same {
		// (that the cache answers at all is what it is for, not what C10 demands)
		if err == nil && got != nil && FirstEntryForKey(got, "password") == "secret-of-"+p1 {
			verifCover("cache-hit")
		}
	} else {
		verifCover("cache-miss")
		verifAssert(got == nil && err != nil, "credentials approved for one protocol://host[:port]/path are never served for another")
	}
	// a rejected entry is forgotten (recorded as reached, not demanded by C10)
	cache.Reject(approved)
	if again, _ := cache.Fill(approved); again == nil {
		verifCover("rejected-entry-dropped")
	}
}
