package config

import (
	"strings"

	"github.com/git-lfs/git-lfs/v3/git"
)

func verifInLDoc(key string) bool {
	ok := false
	for _, d := range verifLDoc {
		if d.wild {
			ok = verifOr(ok, verifAnd(len(key) >= len(d.pre)+len(d.suf), verifAnd(strings.HasPrefix(key, d.pre), strings.HasSuffix(key, d.suf))))
		} else {
			ok = verifOr(ok, key == d.pre)
		}
	}
	return ok
}

// VerifC11_SafeKeys: a key read from an OnlySafeKeys source (.lfsconfig) has an
// effect (stored value, extension setting, remote registration) only if it is
// on the documented allow-list.
func VerifC11_SafeKeys() {
	maxLen := verifBound("part.len", 16, 40)
	n := 2 + verifChoose("extra.parts", verifBound("parts", 5, 7)-1)
	var parts []string
	key := ""
	for k := 0; k < n; k++ {
		p := verifNondetString("part")
		verifAssume(len(p) <= maxLen)
		verifAssume(verifNot(verifOr(strings.Contains(p, "."), verifOr(strings.Contains(p, "="), strings.Contains(p, "\n")))))
		parts = append(parts, p)
		if k > 0 {
			key += "."
		}
		key += p
	}
	// what `git config -l` prints always has a section and a variable name
	verifAssume(parts[0] != "" && parts[n-1] != "")
	val := verifNondetString("val")
	verifAssume(len(val) <= 8)
	verifAssume(verifNot(strings.Contains(val, "\n")))
	text := key + "=" + val
	preRemotes := 0
	switch verifChoose("second.line", 5) {
	case 1: // the same key once more
		val2 := verifNondetString("val2")
		verifAssume(len(val2) <= 8)
		verifAssume(verifNot(strings.Contains(val2, "\n")))
		text += "\n" + key + "=" + val2
	case 2: // a documented key before it
		text = "lfs.url=https://example.com\n" + text
	case 3: // a documented key of the wildcard families before it
		text = "lfs.https://example.com/x.git.access=basic\n" + text
	case 4:
		text = "remote.origin.lfsurl=https://example.com/lfs\n" + text
		preRemotes = 1
	}
	src := git.ParseConfigLines(text, true)
	verifAssert(src.OnlySafeKeys, "a source parsed as safe-only is marked so")

	// known findings (DESIGN.md section 8, F5): families of undocumented keys that take effect
	verifKnown("C11-F5a-remote-dotted-name", n >= 4 && parts[0] == "remote" && parts[n-1] != "lfsurl")
	verifKnown("C11-F5b-remote-two-part", n == 2 && parts[0] == "remote")
	verifKnown("C11-F5c-extension-priority", n == 4 && parts[0] == "lfs" && parts[1] == "extension" && parts[3] == "priority")
	verifKnown("C11-F5d-nonlfs-access", n > 2 && parts[n-1] == "access" && parts[0] != "lfs")

	gf, exts, remotes := readGitConfig(src)
	_, stored := gf.vals[key]
	extSet := false
	for _, e := range exts {
		if e.Clean != "" || e.Smudge != "" || e.Priority != 0 {
			extSet = true
		}
	}
	effect := stored || extSet || len(remotes) > preRemotes
	if effect {
		verifCover("effect")
		verifAssert(verifInLDoc(key), "a .lfsconfig key that takes effect is on the documented allow-list")
	} else {
		verifCover("ignored")
	}
	for _, e := range exts {
		verifAssert(e.Clean == "" && e.Smudge == "", ".lfsconfig never sets an extension's clean/smudge command")
	}
}

// VerifC11_DocKeysWork: every documented key is actually honoured (guards
// against an oracle that accepts because nothing is ever stored).
func VerifC11_DocKeysWork() {
	docKeys := []string{"lfs.allowincompletepush", "lfs.fetchexclude", "lfs.fetchinclude", "lfs.gitprotocol",
		"lfs.locksverify", "lfs.pushurl", "lfs.skipdownloaderrors", "lfs.url", "lfs.https://example.com/x.git.access", "remote.origin.lfsurl"}
	key := docKeys[verifChoose("doc", len(docKeys))]
	val := verifNondetString("val")
	verifAssume(len(val) <= 8)
	verifAssume(verifNot(strings.Contains(val, "\n")))
	verifAssert(verifInLDoc(key), "documented key is in L_doc")
	gf, _, _ := readGitConfig(git.ParseConfigLines(key+"="+val, true))
	got, ok := gf.Get(key)
	verifCover("documented")
	verifAssert(ok && got == val, "a documented .lfsconfig key is honoured")
}

// VerifC11_GitConfigWins: a value also present in Git's own configuration wins
// over the .lfsconfig value (sources are read .lfsconfig first).
func VerifC11_GitConfigWins() {
	safe := []string{"lfs.url", "lfs.pushurl", "lfs.fetchinclude", "lfs.fetchexclude", "lfs.locksverify", "remote.origin.lfsurl", "lfs.https://h/x.access"}
	key := safe[verifChoose("safe", len(safe))]
	v1 := verifNondetString("lfsconfig.val")
	v2 := verifNondetString("gitconfig.val")
	verifAssume(len(v1) <= 8 && len(v2) <= 8)
	verifAssume(verifNot(verifOr(strings.Contains(v1, "\n"), strings.Contains(v2, "\n"))))
	lfsconfig := git.ParseConfigLines(key+"="+v1, true)
	gitconfig := git.ParseConfigLines(key+"="+v2, false)
	gf, _, _ := readGitConfig(lfsconfig, gitconfig)
	got, ok := gf.Get(key)
	verifCover("both-set")
	verifAssert(ok && got == v2, "Git configuration overrides .lfsconfig")
	all := gf.GetAll(key)
	verifAssert(len(all) == 2 && all[0] == v1 && all[1] == v2, "both values are kept, Git's last")
}
