package git

import "strings"

// harness-controlled environment for Configuration.Sources
var (
	verifBare          bool
	verifBareErr       bool
	verifWorktreeFile  bool   // .lfsconfig exists in the working tree
	verifIndexHasFile  bool   // :.lfsconfig readable
	verifHeadHasFile   bool   // HEAD:.lfsconfig readable
	verifGitConfigCall []string
)

func verifGitConfigStub(c *Configuration, args ...string) (string, error) {
	call := strings.Join(args, " ")
	verifGitConfigCall = append(verifGitConfigCall, call)
	switch {
	case len(args) == 1 && args[0] == "-l":
		return "lfs.url=GITCONFIG", nil
	case len(args) == 3 && args[0] == "-l" && args[1] == "-f":
		return "lfs.url=WORKTREE", nil
	case len(args) == 3 && args[0] == "-l" && args[1] == "--blob" && args[2] == ":.lfsconfig":
		if verifIndexHasFile {
			return "lfs.url=INDEX", nil
		}
		return "", errVerifMissing
	case len(args) == 3 && args[0] == "-l" && args[1] == "--blob" && args[2] == "HEAD:.lfsconfig":
		if verifHeadHasFile {
			return "lfs.url=HEAD", nil
		}
		return "", errVerifMissing
	}
	return "", errVerifMissing
}

type verifErr string

func (e verifErr) Error() string { return string(e) }

var errVerifMissing = verifErr("fatal: unable to read config blob")

func verifIsBareStub() (bool, error) {
	if verifBareErr {
		return false, errVerifMissing
	}
	return verifBare, nil
}

// VerifC11_SourceOrder: wherever .lfsconfig is found (working tree, index,
// HEAD, bare repository) it is read as a safe-keys-only source and placed
// before Git's own configuration, which is read last and unrestricted.
func VerifC11_SourceOrder() {
	root := verifTempDir()
	verifBare = verifNondetBool("bare")
	verifBareErr = verifNondetBool("is-bare.fails")
	verifWorktreeFile = verifNondetBool("worktree.file")
	verifIndexHasFile = verifNondetBool("index.file")
	verifHeadHasFile = verifNondetBool("head.file")
	verifGitConfigCall = nil
	if verifWorktreeFile {
		verifFSWrite(root+"/.lfsconfig", "[lfs]\n\turl = WORKTREE\n", 0644)
	} else {
		verifFSWrite(root+"/other", "", 0644)
	}
	c := NewConfig(root, root+"/.git")
	sources, err := c.Sources(root, ".lfsconfig")
	verifAssert(err == nil, "reading the sources succeeds when git config works")
	verifAssert(len(sources) >= 1, "Git's own configuration is always a source")
	last := sources[len(sources)-1]
	verifAssert(!last.OnlySafeKeys && len(last.Lines) == 1 && last.Lines[0] == "lfs.url=GITCONFIG", "Git's own configuration comes last and is unrestricted")
	for k := 0; k+1 < len(sources); k++ {
		verifCover("lfsconfig-found")
		verifAssert(sources[k].OnlySafeKeys, "every .lfsconfig source is restricted to safe keys")
		verifAssert(len(sources[k].Lines) == 1 && sources[k].Lines[0] != "lfs.url=GITCONFIG", "a .lfsconfig source never precedes itself with Git's configuration")
	}
	verifAssert(len(sources) <= 2, "at most one .lfsconfig source is used")
	if len(sources) == 1 {
		verifCover("no-lfsconfig")
	}
}
