package lfs

import (
	verif_time "time"

	"github.com/git-lfs/git-lfs/v3/config"
	"github.com/git-lfs/git-lfs/v3/filepathfilter"
)

// VerifRepoModel: what the Git-backed scans of a repository answer.
type VerifVersion struct {
	Oid        string
	ReplacedAt verif_time.Time // commit date of the commit that replaced this version
}

type VerifRepoModel struct {
	Tree     map[string][]string       // commit -> objects in its tree
	Index    map[string][]string       // working directory -> objects in that index
	Stashed  []string                  // objects referenced by stashes only
	Unpushed map[string][]string       // remote -> objects in commits not pushed to it
	Previous map[string][]VerifVersion // commit -> earlier versions on its history
	All      []string                  // objects reachable from any ref
	Calls    []string
}

var VerifRepo *VerifRepoModel

func verifEmitOids(cb GitScannerFoundPointer, oids []string) {
	for _, o := range oids {
		cb(&WrappedPointer{Name: "file-" + o[:4], Pointer: NewPointer(o, 10, nil)}, nil)
	}
}

func verifRunScanTreeStub(cb GitScannerFoundPointer, ref string, filter *filepathfilter.Filter, gitEnv, osEnv config.Environment) error {
	VerifRepo.Calls = append(VerifRepo.Calls, "tree "+ref)
	verifEmitOids(cb, VerifRepo.Tree[ref])
	return nil
}

func verifScanIndexStub(cb GitScannerFoundPointer, ref string, workingDir string, f *filepathfilter.Filter, gitEnv, osEnv config.Environment) error {
	VerifRepo.Calls = append(VerifRepo.Calls, "index "+workingDir)
	verifEmitOids(cb, VerifRepo.Index[workingDir])
	return nil
}

func verifScanStashedStub(cb GitScannerFoundPointer) error {
	VerifRepo.Calls = append(VerifRepo.Calls, "stashed")
	verifEmitOids(cb, VerifRepo.Stashed)
	return nil
}

func verifScanUnpushedStub(cb GitScannerFoundPointer, remote string) error {
	VerifRepo.Calls = append(VerifRepo.Calls, "unpushed "+remote)
	verifEmitOids(cb, VerifRepo.Unpushed[remote])
	return nil
}

func verifLogPreviousSHAsStub(cb GitScannerFoundPointer, ref string, filter *filepathfilter.Filter, since verif_time.Time) error {
	VerifRepo.Calls = append(VerifRepo.Calls, "previous "+ref)
	for _, v := range VerifRepo.Previous[ref] {
		if !v.ReplacedAt.Before(since) {
			verifEmitOids(cb, []string{v.Oid})
		}
	}
	return nil
}

func verifScanAllStub(scanner *GitScanner, pointerCb GitScannerFoundPointer, include, exclude string, gitEnv, osEnv config.Environment) error {
	VerifRepo.Calls = append(VerifRepo.Calls, "all")
	verifEmitOids(pointerCb, VerifRepo.All)
	return nil
}
