package config

import "github.com/git-lfs/git-lfs/v3/fs"

// VerifFS is the file system handed out by the stubbed (*Configuration).Filesystem.
var VerifFS *fs.Filesystem

func verifFilesystemStub(c *Configuration) *fs.Filesystem { return VerifFS }

func verifExtensionsStub(c *Configuration) map[string]Extension { return map[string]Extension{} }

// VerifTmp is returned by the stubbed (*Configuration).TempDir.
var VerifTmp string

func verifTempDirStub(c *Configuration) string { return VerifTmp }

func verifRemoteStub(c *Configuration) string { return "origin" }
