package fs

// VerifObjects: what walking lfs/objects finds (the harness keeps it in step
// with the files it creates).
var VerifObjects []Object

func verifEachObjectStub(f *Filesystem, fn func(Object) error) error {
	for _, o := range VerifObjects {
		fn(o)
	}
	return nil
}
