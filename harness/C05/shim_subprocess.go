package subprocess

import (
	verif_io "io"
	verif_strings "strings"
)

// scripted subprocesses: the stubbed (*Cmd) methods serve VerifStdout and
// return VerifWaitErr from Wait.
var (
	VerifWaitErr error
	VerifStdout  string
)

// a scripted command has no exec.Cmd; real commands (package initialisers
// run git) keep their behaviour
func verifWaitStub(c *Cmd) error {
	if c.Cmd == nil {
		return VerifWaitErr
	}
	for _, pipe := range c.pipes {
		pipe.Close()
	}
	return c.Cmd.Wait()
}

func verifStartStub(c *Cmd) error {
	if c.Cmd == nil {
		return nil
	}
	c.trace()
	return c.Cmd.Start()
}

func verifStdoutPipeStub(c *Cmd) (verif_io.ReadCloser, error) {
	if c.Cmd == nil {
		return verif_io.NopCloser(verif_strings.NewReader(VerifStdout)), nil
	}
	stdout, err := c.Cmd.StdoutPipe()
	c.pipes = append(c.pipes, stdout)
	return stdout, err
}

func verifStderrPipeStub(c *Cmd) (verif_io.ReadCloser, error) {
	if c.Cmd == nil {
		return verif_io.NopCloser(verif_strings.NewReader("")), nil
	}
	stderr, err := c.Cmd.StderrPipe()
	c.pipes = append(c.pipes, stderr)
	return stderr, err
}
