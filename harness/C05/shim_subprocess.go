package subprocess

// VerifWaitErr is what the stubbed (*Cmd).Wait returns for scripted commands.
var VerifWaitErr error

func verifWaitStub(c *Cmd) error { return VerifWaitErr }
