package tq

import (
	verif_os "os"
	verif_filepath "path/filepath"
)

// A scripted LFS server and transfer adapter for harnesses of other packages:
// the server holds VerifServerObjects (oid -> content) and answers a batch
// request with a download action for what it holds and a 404 object error for
// the rest; the adapter "downloads" by writing the content to the transfer's
// path in local storage.
var (
	VerifServerObjects map[string]string
	VerifDownloaded    []string
	VerifBatchCalls    int
)

type verifSrvBatch struct{ max int }

func (b *verifSrvBatch) MaxRetries() int     { return b.max }
func (b *verifSrvBatch) SetMaxRetries(n int) { b.max = n }

func (b *verifSrvBatch) Batch(remote string, bReq *batchRequest) (*BatchResponse, error) {
	VerifBatchCalls++
	resp := &BatchResponse{TransferAdapterName: "basic"}
	for _, o := range bReq.Objects {
		tr := &Transfer{Oid: o.Oid, Size: o.Size}
		if _, ok := VerifServerObjects[o.Oid]; ok {
			tr.Actions = ActionSet{"download": &Action{Href: "https://lfs.example.com/objects/" + o.Oid}}
		} else {
			tr.Error = &ObjectError{Code: 404, Message: "Object does not exist on the server"}
		}
		resp.Objects = append(resp.Objects, tr)
	}
	return resp, nil
}

type verifSrvAdapter struct{}

func (a *verifSrvAdapter) Name() string                                       { return "basic" }
func (a *verifSrvAdapter) Direction() Direction                               { return Download }
func (a *verifSrvAdapter) Begin(cfg AdapterConfig, cb ProgressCallback) error { return nil }
func (a *verifSrvAdapter) End()                                               {}

func (a *verifSrvAdapter) Add(ts ...*Transfer) <-chan TransferResult {
	results := make(chan TransferResult, len(ts))
	for _, t := range ts {
		VerifDownloaded = append(VerifDownloaded, t.Oid)
		verif_os.MkdirAll(verif_filepath.Dir(t.Path), 0755)
		err := verif_os.WriteFile(t.Path, []byte(VerifServerObjects[t.Oid]), 0644)
		results <- TransferResult{Transfer: t, Error: err}
	}
	close(results)
	return results
}

// VerifNewManifest: a download manifest backed by the scripted server.
func VerifNewManifest() Manifest {
	return &concreteManifest{
		maxRetries:           1,
		concurrentTransfers:  1,
		batchClientAdapter:   &verifSrvBatch{},
		downloadAdapterFuncs: map[string]NewAdapterFunc{"basic": func(name string, dir Direction) Adapter { return &verifSrvAdapter{} }},
		uploadAdapterFuncs:   map[string]NewAdapterFunc{},
	}
}
