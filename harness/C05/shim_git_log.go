package git

import (
	verif_bufio "bufio"
	verif_strings "strings"

	"github.com/git-lfs/git-lfs/v3/subprocess"
)

// scripted `git log`: every call is recorded, the k-th call prints VerifLogOutputs[k]
var (
	VerifLogCalls   [][]string
	VerifLogOutputs []string
	// VerifLogOutputFn, when set, computes what Git prints from the arguments
	// (a model of how options and user configuration shape the output)
	VerifLogOutputFn func(call int, args []string) string
)

type verifNopCloser struct{}

func (verifNopCloser) Write(p []byte) (int, error) { return len(p), nil }
func (verifNopCloser) Close() error                { return nil }

func verifLogStub(args ...string) (*subprocess.BufferedCmd, error) {
	k := len(VerifLogCalls)
	VerifLogCalls = append(VerifLogCalls, append([]string(nil), args...))
	out := ""
	if VerifLogOutputFn != nil {
		out = VerifLogOutputFn(k, args)
	} else if k < len(VerifLogOutputs) {
		out = VerifLogOutputs[k]
	}
	return &subprocess.BufferedCmd{
		Cmd:    &subprocess.Cmd{},
		Stdin:  verifNopCloser{},
		Stdout: verif_bufio.NewReader(verif_strings.NewReader(out)),
		Stderr: verif_bufio.NewReader(verif_strings.NewReader("")),
	}, nil
}
