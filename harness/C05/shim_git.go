package git

import (
	verif_time "time"

	"github.com/git-lfs/git-lfs/v3/subprocess"
)

// scripted answers of the Git commands prune asks about refs and worktrees
type VerifBranch struct {
	Ref    *Ref
	Date   verif_time.Time
	Remote bool
}

var (
	VerifHead        *Ref
	VerifBranches    []VerifBranch
	VerifCommitDates map[string]verif_time.Time
	VerifWorktrees   []*Worktree
)

func verifCurrentRefStub() (*Ref, error) { return VerifHead, nil }

func verifRecentBranchesStub(since verif_time.Time, includeRemoteBranches bool, onlyRemote string) ([]*Ref, error) {
	var out []*Ref
	for _, b := range VerifBranches {
		if b.Remote && !includeRemoteBranches {
			continue
		}
		if !b.Date.Before(since) {
			out = append(out, b.Ref)
		}
	}
	return out, nil
}

func verifGetCommitSummaryStub(commit string) (*CommitSummary, error) {
	return &CommitSummary{Sha: commit, CommitDate: VerifCommitDates[commit]}, nil
}

func verifGetAllWorktreesStub(storageDir string) ([]*Worktree, error) { return VerifWorktrees, nil }

// scripted `git worktree list --porcelain -z` (and any other plain git call of the unit)
var VerifGitCalls [][]string

// VerifScriptGit switches plain git calls to the scripted command.
var VerifScriptGit bool

func verifGitNoLFSStub(args ...string) (*subprocess.Cmd, error) {
	if !VerifScriptGit {
		return subprocess.ExecCommand("git", gitConfigNoLFS(args...)...)
	}
	VerifGitCalls = append(VerifGitCalls, append([]string(nil), args...))
	return &subprocess.Cmd{}, nil
}

func verifGitVersionStub(ver string) bool { return true }
