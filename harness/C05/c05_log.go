package lfs

import (
	"strings"
	"time"

	"github.com/git-lfs/git-lfs/v3/git"
)

// the options every pointer-hunting `git log` needs: patch output with enough
// context for a whole pointer, restricted to pointer changes, no external
// diff/textconv/colour, and the commit header the parser looks for
var verifSearchArgs = []string{"--no-ext-diff", "--no-textconv", "--color=never", "-G", "oid sha256:", "-p", "-U12", "--format=lfs-commit-sha: %H %P"}

func verifHasSeq(args, seq []string) bool {
	for k := 0; k+len(seq) <= len(args); k++ {
		ok := true
		for j := range seq {
			if args[k+j] != seq[j] {
				ok = false
			}
		}
		if ok {
			return true
		}
	}
	return false
}

func verifHas(args []string, a string) bool { return verifHasSeq(args, []string{a}) }

// verifSearchOK: the call carries every pointer-search option, and nothing
// beyond them, the given extra arguments and explicit default path prefixes.
func verifSearchOK(call []string, extra []string) bool {
	if !(verifHas(call, "--no-ext-diff") && verifHas(call, "--no-textconv") && verifHas(call, "--color=never") &&
		verifHasSeq(call, []string{"-G", "oid sha256:"}) && verifHas(call, "-p") && verifHas(call, "-U12") &&
		verifHas(call, "--format=lfs-commit-sha: %H %P")) {
		return false
	}
	for _, a := range call {
		ok := a == "--src-prefix=a/" || a == "--dst-prefix=b/"
		for _, w := range verifSearchArgs {
			if a == w {
				ok = true
			}
		}
		for _, w := range extra {
			if a == w {
				ok = true
			}
		}
		if !ok {
			return false
		}
	}
	return true
}

func verifShortSha(name string) string {
	s := verifNondetString(name)
	verifAssume(len(s) == 7)
	verifAssumeAlphabet(s, "09af")
	return s
}

// verifOidPair: two different object ids (they differ in their first digit, the
// other 63 digits are arbitrary)
func verifOidPair(name1, name2 string) (string, string) {
	a := verifNondetString(name1)
	verifAssume(len(a) == 63)
	verifAssumeAlphabet(a, "09af")
	b := verifNondetString(name2)
	verifAssume(len(b) == 63)
	verifAssumeAlphabet(b, "09af")
	return "a" + a, "b" + b
}

func verifPointerHunk(sign string, oid, size string) string {
	return sign + "version https://git-lfs.github.com/spec/v1\n" + sign + "oid sha256:" + oid + "\n" + sign + "size " + size + "\n"
}

// VerifC05_StashScan: every stash entry is examined twice over the range
// <stash>^..<stash>: once as the diff of the stash commit against its first
// parent (-m --first-parent: the stashed working-tree changes) and once
// without (the index commit and the untracked-files commit, which are the
// other parents), both with the pointer-search options; pointers found by
// either pass are retained.
func VerifC05_StashScan() {
	n := 1 + verifChoose("stashes", 2)
	var shas []string
	reflog := ""
	for k := 0; k < n; k++ {
		s := verifShortSha("stash.sha")
		shas = append(shas, s)
		reflog += s + "\n"
	}
	oidW, oidU := verifOidPair("oid.worktree", "oid.untracked")
	const commit = "lfs-commit-sha: 1111111111111111111111111111111111111111 2222222222222222222222222222222222222222\n\n"
	firstParentDiff := commit + "diff --git a/w.bin b/w.bin\nindex 0000000..1111111 100644\n--- a/w.bin\n+++ b/w.bin\n@@ -1,3 +1,3 @@\n" + verifPointerHunk("+", oidW, "12")
	otherParentsDiff := commit + "diff --git a/u.bin b/u.bin\nnew file mode 100644\nindex 0000000..2222222\n--- /dev/null\n+++ b/u.bin\n@@ -0,0 +1,3 @@\n" + verifPointerHunk("+", oidU, "34")
	git.VerifLogCalls = nil
	git.VerifLogOutputs = []string{reflog, firstParentDiff, otherParentsDiff}
	var found []string
	err := scanStashed(func(p *WrappedPointer, err error) {
		if err == nil && p != nil {
			found = append(found, p.Name+"="+p.Oid)
		}
	})
	verifAssert(err == nil, "scanning stashes succeeds")
	verifAssert(len(git.VerifLogCalls) == 3, "the reflog of refs/stash is listed, then two diff passes are made")
	list := git.VerifLogCalls[0]
	verifAssert(verifHas(list, "-g") && verifHas(list, "refs/stash"), "stash entries come from the reflog of refs/stash")
	first, second := git.VerifLogCalls[1], git.VerifLogCalls[2]
	var ranges []string
	for _, s := range shas {
		ranges = append(ranges, s+"^.."+s)
	}
	verifAssert(verifHasSeq(first, []string{"-m", "--first-parent"}), "the first pass diffs each stash commit against its first parent")
	verifAssert(!verifHas(second, "--first-parent") && !verifHas(second, "-m"), "the second pass walks the other parents (index and untracked-files commits)")
	for _, call := range [][]string{first, second} {
		verifAssert(verifSearchOK(call, append([]string{"-m", "--first-parent"}, ranges...)), "both passes use the pointer-search options and nothing else")
		for _, s := range shas {
			verifAssert(verifHas(call, s+"^.."+s), "every stash is covered by the range <stash>^..<stash> (the stash commit and its non-first parents)")
		}
		extra := 0
		for _, a := range call {
			if strings.Contains(a, "^") && !strings.HasSuffix(a, "%P") {
				extra++
			}
		}
		verifAssert(extra == n, "no other revision ranges are given")
	}
	verifCover("stash-scanned")
	verifAssert(len(found) == 2 && found[0] == "w.bin="+oidW && found[1] == "u.bin="+oidU, "pointers of the working-tree part and of the untracked part are both retained")
}

// VerifC05_UnpushedAndPreviousArgs: unpushed objects are looked for in all
// local branches and tags minus everything the prune remote has; previous
// versions in the history of the ref since the retention date, on the removed
// side of the diffs.
func VerifC05_UnpushedAndPreviousArgs() {
	remote := []string{"origin", "backup", ""}[verifChoose("remote", 3)]
	oid, old := verifOidPair("oid", "oid.old")
	const commit = "lfs-commit-sha: 1111111111111111111111111111111111111111 2222222222222222222222222222222222222222\n\n"
	changed := commit + "diff --git a/f.bin b/f.bin\nindex 1111111..2222222 100644\n--- a/f.bin\n+++ b/f.bin\n@@ -1,3 +1,3 @@\n version https://git-lfs.github.com/spec/v1\n-oid sha256:" + old + "\n-size 5\n+oid sha256:" + oid + "\n+size 7\n"
	git.VerifLogCalls = nil
	git.VerifLogOutputs = []string{changed, changed}
	var found []string
	cb := func(p *WrappedPointer, err error) {
		if err == nil && p != nil {
			found = append(found, p.Oid)
		}
	}
	verifAssert(scanUnpushed(cb, remote) == nil, "scanning unpushed commits succeeds")
	call := git.VerifLogCalls[0]
	want := []string{"--branches", "--tags", "--not", "--remotes=" + remote}
	if remote == "" {
		want[3] = "--remotes"
	}
	verifAssert(verifHasSeq(call[:4], want), "all local branches and tags, minus what the remote has")
	verifAssert(verifSearchOK(call, want), "with the pointer-search options and nothing else")
	verifAssert(len(found) == 1 && found[0] == oid, "the added side of a change is what is unpushed")
	verifCover("unpushed")

	found = nil
	// the rendering of the date is Git's business (and time.Format's); in the
	// engine it is replaced by a fixed text on both sides of the comparison
	verifOverride("github.com/git-lfs/git-lfs/v3/git.FormatGitDate", func(t time.Time) string { return "<retention date>" })
	since := time.Unix(1700000000, 0).UTC()
	verifAssert(logPreviousSHAs(cb, "3333333333333333333333333333333333333333", nil, since) == nil, "scanning previous versions succeeds")
	call = git.VerifLogCalls[1]
	verifAssert(call[0] == "--since="+git.FormatGitDate(since) && call[len(call)-1] == "3333333333333333333333333333333333333333", "history of the ref since the retention date")
	verifAssert(verifSearchOK(call, []string{call[0], call[len(call)-1]}), "with the pointer-search options and nothing else")
	verifAssert(len(found) == 1 && found[0] == old, "the removed side of a change is the previous version")
	verifCover("previous-versions")
}

// VerifC05_UnpushedFound: whatever the user's Git configuration makes of the
// patch output (diff.noprefix, diff.mnemonicPrefix change the "a/" "b/" path
// prefixes unless the command line pins them), every pointer added by an
// unpushed commit is found - also when one commit adds several - so that
// prune retains it.
func VerifC05_UnpushedFound() {
	oid1, oid2 := verifOidPair("oid.1", "oid.2")
	nfiles := 1 + verifChoose("files.in.commit", 2)
	userConfig := verifChoose("user.diff.config", 3) // 0 default, 1 diff.noprefix, 2 diff.mnemonicPrefix
	git.VerifLogCalls = nil
	git.VerifLogOutputFn = func(call int, args []string) string {
		// Git's rule: explicit --src-prefix/--dst-prefix win; otherwise
		// diff.noprefix drops the prefixes; diff.mnemonicPrefix uses c/ i/ w/ o/
		// only for comparisons that involve the index or the working tree, never for
		// commit-to-commit diffs as `git log -p` shows them
		src, dst := "a/", "b/"
		if userConfig == 1 {
			src, dst = "", ""
		}
		for _, a := range args {
			if strings.HasPrefix(a, "--src-prefix=") {
				src = a[len("--src-prefix="):]
			}
			if strings.HasPrefix(a, "--dst-prefix=") {
				dst = a[len("--dst-prefix="):]
			}
		}
		out := "lfs-commit-sha: 1111111111111111111111111111111111111111\n\n"
		out += "diff --git " + src + "one.bin " + dst + "one.bin\nnew file mode 100644\nindex 0000000..1111111\n--- /dev/null\n+++ " + dst + "one.bin\n@@ -0,0 +1,3 @@\n" + verifPointerHunk("+", oid1, "11")
		if nfiles == 2 {
			out += "diff --git " + src + "two.bin " + dst + "two.bin\nnew file mode 100644\nindex 0000000..2222222\n--- /dev/null\n+++ " + dst + "two.bin\n@@ -0,0 +1,3 @@\n" + verifPointerHunk("+", oid2, "22")
		}
		return out
	}
	var found []string
	err := scanUnpushed(func(p *WrappedPointer, err error) {
		if err == nil && p != nil {
			found = append(found, p.Oid)
		}
	}, "origin")
	git.VerifLogOutputFn = nil
	verifAssert(err == nil, "scanning unpushed commits succeeds")
	verifCover("unpushed-scanned")
	verifAssert(len(found) == nfiles, "every pointer an unpushed commit adds is found")
	verifAssert(found[0] == oid1 && (nfiles == 1 || found[1] == oid2), "with its object id")
}
