package commands

import (
	"io"
	"strings"
	"time"

	"github.com/git-lfs/git-lfs/v3/config"
	"github.com/git-lfs/git-lfs/v3/fs"
	"github.com/git-lfs/git-lfs/v3/git"
	"github.com/git-lfs/git-lfs/v3/lfs"
	"github.com/git-lfs/git-lfs/v3/subprocess"
	"github.com/git-lfs/git-lfs/v3/tasklog"
	"github.com/git-lfs/git-lfs/v3/tq"
)

type verifExit struct{}

func verifExitStub(format string, args ...interface{}) { panic(verifExit{}) }

var verifManifestRemotes []string

func verifPruneManifestStub(operation, remote string) tq.Manifest {
	verifManifestRemotes = append(verifManifestRemotes, operation+" "+remote)
	return tq.VerifNewManifest()
}

func verifPruneRemoteRefStub() *git.Ref { return &git.Ref{Name: "main", Type: git.RefTypeLocalBranch} }

func verifSilent5(format string, args ...interface{})                  {}
func verifSilentLogged5(err error, format string, args ...interface{}) {}

var verifT0 = time.Unix(1700000000, 0)

func verifFixedNow() time.Time { return verifT0 }

const (
	roleHead = iota
	roleIndex
	roleOtherWorktreeHead
	roleOtherWorktreeIndex
	roleStashed
	roleUnpushed
	roleRecentBranch
	rolePreviousVersion
	roleOldPushed
	roleOrphan
	roleCount
)

// VerifC05_Prune: the real prune (its tasks, channels and goroutines, the
// retention-window arithmetic, the verify queue and the deletion loop) over a
// scripted repository: two or three local objects, each in one of ten roles
// (in HEAD's tree, staged in the index, in another worktree's HEAD or index,
// stashed, not pushed to the prune remote, at the tip of a branch or a
// previous version on HEAD's history a days old, old and pushed, unreachable),
// for every setting of the retention windows and flags: an object that is
// needed is never deleted, with --verify-remote a reachable object the prune
// remote does not hold is never deleted, --dry-run deletes nothing (that everything else is deleted is recorded as reached, not demanded).
func VerifC05_Prune() {
	root := verifTempDir()
	config.VerifFS = &fs.Filesystem{LFSStorageDir: root + "/lfs"}
	config.VerifTmp = root + "/lfs/tmp"
	verifFSWrite(root+"/lfs/objects/.keep", "", 0644)
	verifOverride("github.com/git-lfs/git-lfs/v3/commands.Print", verifSilent5)
	verifOverride("github.com/git-lfs/git-lfs/v3/commands.Error", verifSilent5)
	verifOverride("github.com/git-lfs/git-lfs/v3/commands.LoggedError", verifSilentLogged5)
	verifOverride("time.Now", verifFixedNow)
	verifOverride("runtime.NumCPU", func() int { return 4 })
	verifOverride("(*github.com/git-lfs/git-lfs/v3/tasklog.PercentageTask).Count", func(t *tasklog.PercentageTask, n uint64) uint64 { return 0 })
	verifOverride("github.com/git-lfs/git-lfs/v3/tools/humanize.FormatBytes", func(n uint64) string { return "some bytes" })
	OutputWriter = &multiWriter{writer: io.Discard}
	verifOverride("github.com/git-lfs/git-lfs/v3/tasklog.tty", func(w io.Writer) bool { return false })
	cfg = &config.Configuration{
		Git: config.EnvironmentOf(config.MapFetcher(map[string][]string{})),
		Os:  config.EnvironmentOf(config.MapFetcher(map[string][]string{})),
	}
	verifSchedPolicy(verifChoose("schedule.policy", verifBound("schedule.policies", 2, 3)))

	// retention settings
	refDays := verifNondetInt("lfs.fetchrecentrefsdays")
	commitDays := verifNondetInt("lfs.fetchrecentcommitsdays")
	offset := verifNondetInt("lfs.pruneoffsetdays")
	verifAssume(refDays >= 0 && refDays <= 10 && commitDays >= 0 && commitDays <= 10 && offset >= 0 && offset <= 5)
	force := (verifChoose("--force", 2) == 1)
	recent := (verifChoose("--recent", 2) == 1) || force
	fpc := lfs.FetchPruneConfig{
		FetchRecentRefsDays: refDays, FetchRecentRefsIncludeRemotes: true, FetchRecentCommitsDays: commitDays,
		PruneOffsetDays: offset, PruneRemoteName: "backup", PruneRecent: recent, PruneForce: force,
	}
	verifyRemote := (verifChoose("--verify-remote", 2) == 1)
	verifyUnreachable := verifyRemote && (verifChoose("--verify-unreachable", 2) == 1)
	continueUnverified := verifyRemote && (verifChoose("--when-unverified=continue", 2) == 1)
	dryRun := (verifChoose("--dry-run", 2) == 1)

	// the repository
	const headSha, branchSha = "1111111111111111111111111111111111111111", "3333333333333333333333333333333333333333"
	// the added worktree is on a commit of its own, or - right after `git
	// worktree add` - on the very commit the main working tree is on
	const sideSha = "2222222222222222222222222222222222222222"
	otherSha := ""
	chooseOther := func() {
		if otherSha == "" {
			otherSha = sideSha
			if verifChoose("other.worktree.at.head.commit", 2) == 1 {
				otherSha = headSha
			}
		}
	}
	headDate := verifT0.AddDate(0, 0, -2)
	repo := &lfs.VerifRepoModel{Tree: map[string][]string{}, Index: map[string][]string{}, Unpushed: map[string][]string{}, Previous: map[string][]lfs.VerifVersion{}}
	lfs.VerifRepo = repo
	git.VerifHead = &git.Ref{Name: "main", Type: git.RefTypeLocalBranch, Sha: headSha}
	git.VerifCommitDates = map[string]time.Time{headSha: headDate, sideSha: headDate, branchSha: headDate}
	git.VerifBranches = nil
	otherAttr := -1 // attribute of the added worktree, chosen when an object lives there
	subprocess.VerifWaitErr = nil
	tq.VerifServerObjects = map[string]string{}
	fs.VerifObjects = nil
	verifManifestRemotes = nil

	n := verifBound("objects", 2, 3)
	oids := []string{strings.Repeat("a", 64), strings.Repeat("b", 64), strings.Repeat("c", 64)}[:n]
	needed := map[string]bool{}
	reachable := map[string]bool{}
	onServer := map[string]bool{}
	for k, oid := range oids {
		verifFSWrite(config.VerifFS.ObjectPathname(oid), "0123456789", 0444)
		fs.VerifObjects = append(fs.VerifObjects, fs.Object{Oid: oid, Size: 10})
		role := verifChoose("role", roleCount)
		if k > 0 && verifBound("all.roles.for.every.object", 0, 0) == 0 {
			// quick tier: the other objects are bystanders (pushed, orphaned or checked out)
			verifAssume(role == roleOldPushed || role == roleOrphan || role == roleHead)
		}
		reachable[oid] = role != roleOrphan && role != roleIndex && role != roleOtherWorktreeIndex && role != roleStashed
		if reachable[oid] {
			repo.All = append(repo.All, oid)
		}
		switch role {
		case roleHead:
			repo.Tree[headSha] = append(repo.Tree[headSha], oid)
			needed[oid] = !force
		case roleIndex:
			repo.Index[root+"/work"] = append(repo.Index[root+"/work"], oid)
			needed[oid] = true
		case roleOtherWorktreeHead:
			chooseOther()
			if otherAttr < 0 {
				otherAttr = verifChoose("other.worktree.attribute", 4)
			}
			repo.Tree[otherSha] = append(repo.Tree[otherSha], oid)
			needed[oid] = !force
		case roleOtherWorktreeIndex:
			chooseOther()
			if otherAttr < 0 {
				otherAttr = verifChoose("other.worktree.attribute", 4)
			}
			repo.Index[root+"/other"] = append(repo.Index[root+"/other"], oid)
			needed[oid] = otherAttr != 3 // the index of a worktree whose directory is gone cannot be read
		case roleStashed:
			repo.Stashed = append(repo.Stashed, oid)
			needed[oid] = true
		case roleUnpushed:
			repo.Unpushed["backup"] = append(repo.Unpushed["backup"], oid)
			needed[oid] = true
		case roleRecentBranch:
			// at the tip of a branch whose last commit is `age` days and 12 hours old
			age := verifNondetInt("branch.age.days")
			verifAssume(age >= 0 && age <= 20)
			date := verifT0.AddDate(0, 0, -age).Add(-12 * time.Hour)
			if len(git.VerifBranches) == 0 {
				git.VerifBranches = append(git.VerifBranches, git.VerifBranch{Ref: &git.Ref{Name: "topic", Type: git.RefTypeLocalBranch, Sha: branchSha}, Date: date, Remote: (verifChoose("branch.is.remote", 2) == 1)})
			}
			repo.Tree[branchSha] = append(repo.Tree[branchSha], oid)
			age0 := verifBranchAge
			if age0 < 0 {
				verifBranchAge, age0 = age, age
			}
			verifAssume(age == age0) // one branch, one date
			needed[oid] = !recent && refDays > 0 && age < refDays+offset
		case rolePreviousVersion:
			// replaced on HEAD's history `age` days and 12 hours before HEAD's commit
			age := verifNondetInt("version.age.days")
			verifAssume(age >= 0 && age <= 20)
			repo.Previous[headSha] = append(repo.Previous[headSha], lfs.VerifVersion{Oid: oid, ReplacedAt: headDate.AddDate(0, 0, -age).Add(-12 * time.Hour)})
			needed[oid] = !recent && commitDays > 0 && age < commitDays+offset
		case roleOldPushed, roleOrphan:
		}
		if (verifChoose("server.has", 2) == 1) {
			tq.VerifServerObjects[oid] = "0123456789"
			onServer[oid] = true
		}
	}
	verifBranchAge = -1

	// `git worktree list --porcelain -z`: the main working tree and one added
	// worktree, which may be locked (with or without a reason) or prunable
	if otherAttr < 0 {
		otherAttr = 0
	}
	if otherSha == "" {
		otherSha = sideSha
	}
	listing := "worktree " + root + "/work\x00HEAD " + headSha + "\x00branch refs/heads/main\x00\x00"
	listing += "worktree " + root + "/other\x00HEAD " + otherSha + "\x00branch refs/heads/side\x00"
	switch otherAttr {
	case 1:
		listing += "locked\x00"
	case 2:
		listing += "locked on a removable disk\x00"
	case 3:
		listing += "prunable gitdir file points to non-existent location\x00"
	}
	listing += "\x00"
	subprocess.VerifStdout = listing
	git.VerifScriptGit = true

	exited := false
	func() {
		defer func() {
			if r := recover(); r != nil {
				if _, ok := r.(verifExit); !ok {
					panic(r)
				}
				exited = true
			}
		}()
		verifNoDeadlock("prune returns")
		prune(fpc, verifyRemote, verifyUnreachable, continueUnverified, dryRun, false)
	}()

	// what may be deleted
	verifiable := func(oid string) bool {
		return onServer[oid] || (!verifyUnreachable && !reachable[oid])
	}
	for _, oid := range oids {
		_, exists := verifFSRead(config.VerifFS.ObjectPathname(oid))
		deleted := !exists
		mayDelete := !needed[oid] && !dryRun
		if verifyRemote {
			// (git-lfs deletes nothing at all when it halts for unverified
			// objects; the property only forbids deleting the unverified ones)
			mayDelete = mayDelete && verifiable(oid)
		}
		if needed[oid] {
			verifCover("needed-object")
			verifAssert(!deleted, "an object that is still needed (checkout, index, worktree, stash, unpushed, retention window) is never deleted")
		}
		if dryRun {
			verifAssert(!deleted, "--dry-run deletes nothing")
		}
		if verifyRemote && !verifiable(oid) {
			verifCover("unverified-object")
			verifAssert(!deleted, "with --verify-remote an object the prune remote does not hold is never deleted (unless unreachable and unreachable objects are not verified)")
		}
		verifAssert(!deleted || mayDelete, "nothing else is deleted either")
		if mayDelete && deleted {
			// (that prune deletes what it may is what it is for, but not what the
			// property demands: only reachability of the case is recorded)
			verifCover("pruned")
		}
	}
	if exited {
		verifCover("halted")
	}
	_ = continueUnverified
	for _, m := range verifManifestRemotes {
		verifAssert(m == "download backup", "remote verification asks the configured prune remote")
	}
	for _, c := range repo.Calls {
		if strings.HasPrefix(c, "unpushed ") {
			verifAssert(c == "unpushed backup", "unpushed objects are determined against the prune remote")
		}
	}
}

var verifBranchAge = -1
