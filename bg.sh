#!/bin/bash
# usage: bg.sh <logfile> <command...>   -- start a command fully detached
LOG=$1; shift
nohup bash -c "$*" > "$LOG" 2>&1 < /dev/null &
echo "started pid $!"
