#!/bin/bash
# usage: runall.sh <tier> [ids...]  -- runs the checks one after the other and prints their result lines
TIER=${1:-quick}; shift
IDS=${@:-$(python3 -c "import json;print(' '.join(c['property_id'] for c in json.load(open('/verif/MANIFEST.json'))['checks']))")}
for id in $IDS; do
  timeout 3600 /verif/check $id --$TIER > /tmp/runall_$id.log 2>&1; rc=$?
  echo "== $id exit=$rc $(grep -a '^SUMMARY' /tmp/runall_$id.log | cut -c1-220)"
  grep -a "^VIOLATION\|^ENGINE\|^SPURIOUS\|^  entry" /tmp/runall_$id.log | cut -c1-400 | head -6
done
