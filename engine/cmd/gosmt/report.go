package main

import (
	"crypto/sha1"
	"encoding/json"
	"fmt"
	"os"
	"path/filepath"
	"sort"
	"strings"
	"time"

	"golang.org/x/tools/go/ssa"

	"gosmt/sx"
)

type violation struct {
	entry  *EntryResult
	ob     *sx.Obligation
	bounds map[string]int64
}

func scriptOf(entry, tier string, model map[string]sx.ModelVal, bounds map[string]int64) *Script {
	return &Script{Entry: entry, Tier: tier, Vals: model, Bounds: bounds}
}

func gitBlobHash(path string) string {
	data, err := os.ReadFile(path)
	if err != nil {
		return ""
	}
	h := sha1.New()
	fmt.Fprintf(h, "blob %d\x00", len(data))
	h.Write(data)
	return fmt.Sprintf("%x", h.Sum(nil))
}

func report(id, tier string, seed int, cfg *Config, hdir string, results []*EntryResult, findings []Finding, t0 time.Time, noReplay bool, prog *ssa.Program) int {
	exit := 0
	engineProblem := false
	var lines []string
	say := func(format string, args ...interface{}) {
		s := fmt.Sprintf(format, args...)
		lines = append(lines, s)
		fmt.Println(s)
	}

	var states, transitions, paths int64
	obligations, discharged := 0, 0
	undecided := []string{}
	var samples []interface{}
	validated := 0
	spurious := []string{}
	knownHit := map[string]*violation{}
	altViols := map[string][]*violation{}
	var viols []*violation
	endedCount := map[string]int{}
	bounds := map[string]int64{}
	funcs := map[string]string{}
	solverStats := map[string]sx.SolverStats{}
	approx := map[string]int{}
	assumptions := map[string]bool{}
	for _, a := range cfg.Assumptions {
		assumptions[a] = true
	}
	var wraps int64
	truncated := false

	for _, er := range results {
		ex := er.Explorer
		states += ex.States()
		transitions += ex.Transitions()
		wraps += ex.Wraps()
		if ex.Truncated() {
			truncated = true
		}
		for k, v := range ex.Hub.Stats() {
			s := solverStats[k]
			s.Queries += v.Queries
			s.Sat += v.Sat
			s.Unsat += v.Unsat
			s.Unknown += v.Unknown
			s.Seconds += v.Seconds
			solverStats[k] = s
		}
		for k, v := range ex.Approx {
			approx[k] += v
		}
		for k := range ex.Assumptions {
			assumptions[k] = true
		}
		ex.Funcs.Range(func(k, _ interface{}) bool {
			f := k.(*ssa.Function)
			if f.Pkg != nil && strings.HasPrefix(f.Pkg.Pkg.Path(), modPath) && f.Pos().IsValid() {
				file := prog.Fset.Position(f.Pos()).Filename
				if !strings.Contains(file, "zz_verif") {
					funcs[f.String()] = file
				}
			}
			return true
		})
		reached := map[string]bool{}
		seenV := map[string]bool{}
		witnessScripts := map[string]*Script{}
		witnessOf := map[string]*sx.PathResult{}
		for _, pr := range ex.Results {
			paths++
			endedCount[pr.Ended]++
			for k, v := range pr.Bounds {
				bounds[k] = v
			}
			for _, c := range pr.Covers {
				reached[c] = true
			}
			switch pr.Ended {
			case "unsupported":
				say("ENGINE-UNSUPPORTED entry=%s path=%s: %s", er.Entry, pr.ID, pr.Detail)
				engineProblem = true
			case "engine-error":
				say("ENGINE-ERROR entry=%s path=%s: %s", er.Entry, pr.ID, pr.Detail)
				engineProblem = true
			case "budget", "deadlock":
				undecided = append(undecided, fmt.Sprintf("%s path %s ended: %s %s", er.Entry, pr.ID, pr.Ended, pr.Detail))
				obligations++
			}
			for _, ob := range pr.Obls {
				switch ob.Status {
				case "holds":
					obligations++
					discharged++
				case "undecided":
					obligations++
					undecided = append(undecided, fmt.Sprintf("%s: %s %q at %s (path %s)", er.Entry, ob.Kind, ob.Msg, ob.Pos, pr.ID))
				case "violated":
					obligations++
					key := er.Entry + "|" + ob.Kind + "|" + ob.Msg + "|" + ob.Pos
					if !seenV[key] {
						seenV[key] = true
						viols = append(viols, &violation{er, ob, pr.Bounds})
					} else if len(altViols[key]) < 12 {
						// other paths violating the same assertion: tried in turn when
						// the first model does not reproduce natively (schedule- or
						// timing-dependent counterexamples)
						altViols[key] = append(altViols[key], &violation{er, ob, pr.Bounds})
					}
				case "known":
					if _, ok := knownHit[ob.Known]; !ok {
						knownHit[ob.Known] = &violation{er, ob, pr.Bounds}
					}
				}
			}
			if pr.Witness != nil && len(witnessScripts) < 40 {
				name := fmt.Sprintf("w%03d", len(witnessScripts))
				witnessScripts[name] = scriptOf(er.Entry, tier, pr.Witness, pr.Bounds)
				witnessOf[name] = pr
			}
		}
		// vacuity
		for _, l := range er.CoverLabels {
			if !reached[l] {
				say("ENGINE-VACUOUS entry=%s cover %q was never reached", er.Entry, l)
				engineProblem = true
			}
		}
		// translation validation of witnesses
		if !noReplay && len(witnessScripts) > 0 {
			res, errOut := nativeRun(hdir, er.Unit, witnessScripts)
			if res == nil {
				say("ENGINE-REPLAY-BUILD entry=%s: %s", er.Entry, firstLines(errOut, 15))
				engineProblem = true
			}
			var names []string
			for n := range witnessScripts {
				names = append(names, n)
			}
			sort.Strings(names)
			for _, n := range names {
				nr := res[n]
				pr := witnessOf[n]
				if nr == nil {
					continue
				}
				ok := nr.Outcome == "ok" && strings.Join(nr.Covers, ",") == strings.Join(pr.Covers, ",") && sameObs(nr.Observes, pr.Observes)
				if ok {
					validated++
					if len(samples) < 6 {
						samples = append(samples, map[string]interface{}{"harness": er.Entry, "path": pr.ID, "witness": humanModel(pr.Witness),
							"covers": pr.Covers, "engine_observes": pr.Observes, "native_observes": nr.Observes, "native_outcome": nr.Outcome})
					}
				} else {
					say("ENGINE-MISMATCH entry=%s path=%s: engine covers=%v observes=%v; native outcome=%s msg=%q covers=%v observes=%v failures=%v missing=%v witness=%v",
						er.Entry, pr.ID, pr.Covers, pr.Observes, nr.Outcome, nr.Msg, nr.Covers, nr.Observes, nr.Failures, nr.Missing, humanModel(pr.Witness))
					engineProblem = true
				}
			}
		}
	}

	// counterexamples: replay natively
	replayBase := filepath.Join(evidenceDir, "replays", id)
	os.RemoveAll(replayBase)
	confirmed := 0
	nrep := 0
	replayOne := func(v *violation) (*NativeResult, string) {
		s := scriptOf(v.entry.Entry, tier, v.ob.Model, v.bounds)
		res, errOut := nativeRun(hdir, v.entry.Unit, map[string]*Script{"cx": s})
		if res == nil {
			return nil, errOut
		}
		return res["cx"], ""
	}
	persist := func(v *violation, nr *NativeResult) string {
		nrep++
		dir := filepath.Join(replayBase, fmt.Sprintf("%d", nrep))
		os.MkdirAll(dir, 0755)
		s := scriptOf(v.entry.Entry, tier, v.ob.Model, v.bounds)
		data, _ := json.MarshalIndent(s, "", " ")
		os.WriteFile(filepath.Join(dir, "script.json"), data, 0644)
		info := map[string]interface{}{"entry": v.entry.Entry, "kind": v.ob.Kind, "message": v.ob.Msg, "at": v.ob.Pos, "path": v.ob.Path,
			"inputs": humanModel(v.ob.Model), "native": nr, "replay": fmt.Sprintf("cd /verif && ./check %s --replay %s", id, dir)}
		data, _ = json.MarshalIndent(info, "", " ")
		os.WriteFile(filepath.Join(dir, "info.json"), data, 0644)
		return dir
	}
	for _, v := range viols {
		if noReplay {
			say("UNREPLAYED-VIOLATION property=%s entry=%s %s %q at %s inputs=%v", id, v.entry.Entry, v.ob.Kind, v.ob.Msg, v.ob.Pos, humanModel(v.ob.Model))
			continue
		}
		nr, errOut := replayOne(v)
		if nr == nil {
			say("ENGINE-REPLAY-BUILD entry=%s: %s", v.entry.Entry, firstLines(errOut, 15))
			engineProblem = true
			continue
		}
		if nr.Outcome != "assert" && nr.Outcome != "panic" {
			key := v.entry.Entry + "|" + v.ob.Kind + "|" + v.ob.Msg + "|" + v.ob.Pos
			if alts := altViols[key]; len(alts) > 0 {
				scripts := map[string]*Script{}
				for k, a := range alts {
					scripts[fmt.Sprintf("alt%02d", k)] = scriptOf(a.entry.Entry, tier, a.ob.Model, a.bounds)
				}
				if res, _ := nativeRun(hdir, v.entry.Unit, scripts); res != nil {
					for k, a := range alts {
						if r := res[fmt.Sprintf("alt%02d", k)]; r != nil && (r.Outcome == "assert" || r.Outcome == "panic") {
							v, nr = a, r
							break
						}
					}
				}
			}
		}
		engineOnly := false
		if nr.Outcome != "assert" && nr.Outcome != "panic" && contains(cfg.EngineConfirmed, v.entry.Entry) {
			if confirmInEngine(v, prog, tier) {
				engineOnly = true
				nr.Outcome = "engine-confirmed (kill -9 in mid-call cannot be replayed natively; the path was re-executed in the interpreter with all inputs pinned to the model)"
			}
		}
		if nr.Outcome == "assert" || nr.Outcome == "panic" || engineOnly {
			dir := persist(v, nr)
			confirmed++
			say("VIOLATION property=%s replay=%s", id, dir)
			say("  entry=%s %s %q at %s native=%s %s %v inputs=%v", v.entry.Entry, v.ob.Kind, v.ob.Msg, v.ob.Pos, nr.Outcome, nr.Msg, nr.Failures, humanModel(v.ob.Model))
			exit = 1
		} else {
			sp := fmt.Sprintf("%s: %s %q at %s: solver model did not reproduce natively (outcome=%s) inputs=%v", v.entry.Entry, v.ob.Kind, v.ob.Msg, v.ob.Pos, nr.Outcome, humanModel(v.ob.Model))
			spurious = append(spurious, sp)
			say("SPURIOUS %s", sp)
			undecided = append(undecided, "spurious: "+sp)
		}
	}
	// known findings
	var knownOut []interface{}
	var kids []string
	for k := range knownHit {
		kids = append(kids, k)
	}
	sort.Strings(kids)
	for _, kid := range kids {
		v := knownHit[kid]
		what := kid
		for _, f := range findings {
			if f.ID == kid {
				what = f.ID + ": " + f.What
			}
		}
		repro := "not replayed"
		if !noReplay {
			if nr, _ := replayOne(v); nr != nil {
				repro = nr.Outcome
			}
		}
		say("KNOWN-FINDING: property=%s %s", id, what)
		knownOut = append(knownOut, map[string]interface{}{"id": kid, "entry": v.entry.Entry, "message": v.ob.Msg, "inputs": humanModel(v.ob.Model), "native_outcome": repro})
	}

	if len(samples) == 0 {
		// fall back to obligation samples so that the evidence shows actual cases
		for _, er := range results {
			for _, pr := range er.Explorer.Results {
				for _, ob := range pr.Obls {
					if len(samples) < 4 {
						samples = append(samples, map[string]interface{}{"harness": er.Entry, "path": pr.ID, "obligation": ob.Msg, "status": ob.Status})
					}
				}
			}
		}
		if len(samples) == 0 {
			samples = append(samples, map[string]interface{}{"note": "no path completed"})
		}
	}

	var fnList []map[string]string
	var fnNames []string
	for f := range funcs {
		fnNames = append(fnNames, f)
	}
	sort.Strings(fnNames)
	blobCache := map[string]string{}
	for _, f := range fnNames {
		file := funcs[f]
		if _, ok := blobCache[file]; !ok {
			blobCache[file] = gitBlobHash(file)
		}
		fnList = append(fnList, map[string]string{"fn": f, "file": strings.TrimPrefix(file, repoDir+"/"), "blob": blobCache[file]})
	}
	assumeList := []string{"go/ssa (x/tools v0.29.0) SSA construction is faithful to the Go semantics of /repo's source", "cvc5 1.0.3 / z3 4.8.12 / z3 5.1.0 answers are sound", "byte strings are SMT strings over characters 0..255"}
	for a := range assumptions {
		assumeList = append(assumeList, a)
	}
	sort.Strings(assumeList)
	if truncated {
		undecided = append(undecided, "exploration truncated by max_paths/deadline: remaining paths not explored")
	}
	var solverS float64
	for _, s := range solverStats {
		solverS += s.Seconds
	}
	if states < 1 {
		states = 1
	}
	if transitions < 1 {
		transitions = 1
	}
	var entries []map[string]interface{}
	for _, er := range results {
		entries = append(entries, map[string]interface{}{"entry": er.Entry, "paths": len(er.Explorer.Results), "wall_s": round(er.Wall), "covers": er.CoverLabels})
	}
	ev := map[string]interface{}{
		"property_id": id, "tier": tier, "seed": seed, "level": "model_checking",
		"coverage": map[string]interface{}{
			"states": states, "transitions": transitions, "traces_validated_against_impl": validated,
			"samples": samples, "paths": paths, "path_endings": endedCount,
			"obligations": obligations, "discharged": discharged, "undecided": undecided,
			"functions_encoded": fnList, "bounds": bounds, "unwind": pick(cfg.Unwind, tier, 8),
			"solvers": solverStats, "solver_s": round(solverS), "int_wraps_emitted": wraps,
			"over_approximations": approx, "spurious": spurious, "known_findings": knownOut,
			"entries":     entries,
			"explanation": "bounded symbolic execution of the listed /repo functions (go/ssa -> SMT-LIB2); every branch feasibility and every assertion decided by cvc5/z3 over all values within the bounds; witnesses replayed natively",
		},
		"assumptions": assumeList,
		"wall_s":      round(time.Since(t0).Seconds()),
		"violations":  confirmed,
	}
	os.MkdirAll(evidenceDir, 0755)
	data, _ := json.MarshalIndent(ev, "", " ")
	os.WriteFile(filepath.Join(evidenceDir, id+".json"), data, 0644)

	fmt.Printf("SUMMARY property=%s tier=%s paths=%d obligations=%d discharged=%d undecided=%d violations=%d known=%d validated_traces=%d solver_s=%.1f wall_s=%.1f\n",
		id, tier, paths, obligations, discharged, len(undecided), confirmed, len(knownHit), validated, solverS, time.Since(t0).Seconds())
	if exit == 1 {
		return 1
	}
	if engineProblem {
		return 3
	}
	return 0
}

func round(f float64) float64 { return float64(int(f*100)) / 100 }

func firstLines(s string, n int) string {
	ls := strings.Split(s, "\n")
	if len(ls) > n {
		ls = ls[:n]
	}
	return strings.Join(ls, "\n")
}

func sameObs(a, b []sx.ObservedVal) bool {
	if len(a) != len(b) {
		return false
	}
	for i := range a {
		if a[i].Label != b[i].Label {
			return false
		}
		if a[i].Value != b[i].Value && a[i].Value != "?" && b[i].Value != "?" {
			return false
		}
	}
	return true
}

// humanModel renders strings readably (printable as-is, others escaped).
func humanModel(m map[string]sx.ModelVal) map[string]string {
	out := map[string]string{}
	for k, v := range m {
		if v.Kind == "str" {
			var b []byte
			fmt.Sscanf(v.V, "%x", &b)
			out[k] = fmt.Sprintf("%q", string(b))
		} else {
			out[k] = v.V
		}
	}
	return out
}

// confirmInEngine re-runs the harness with every input pinned to the model's
// value and checks that the same assertion is violated again.
func confirmInEngine(v *violation, prog *ssa.Program, tier string) bool {
	old := v.entry.Explorer
	fixed := map[string]string{}
	for name, mv := range v.ob.Model {
		switch mv.Kind {
		case "int":
			if strings.HasPrefix(mv.V, "-") {
				fixed[name] = "(- " + mv.V[1:] + ")"
			} else {
				fixed[name] = mv.V
			}
		case "bool":
			fixed[name] = mv.V
		case "str":
			var b []byte
			fmt.Sscanf(mv.V, "%x", &b)
			var sb strings.Builder
			sb.WriteByte('"')
			for _, c := range b {
				if c == '"' {
					sb.WriteString(`""`)
				} else if c >= 0x20 && c < 0x7f && c != '\\' {
					sb.WriteByte(c)
				} else {
					fmt.Fprintf(&sb, `\u{%x}`, c)
				}
			}
			sb.WriteByte('"')
			fixed[name] = sb.String()
		}
	}
	ex := &sx.Explorer{Prog: prog, Hub: sx.NewSolverHub(), Harness: old.Harness, HarnessName: old.HarnessName,
		Workers: 4, Unwind: old.Unwind, MaxSteps: old.MaxSteps, MaxPaths: 2000, TimeoutMs: old.TimeoutMs,
		Seed: old.Seed, Tier: tier, Known: old.Known, Redirects: old.Redirects, Bounds: old.Bounds, MaxUnknown: 6, Fixed: fixed}
	ex.Run()
	for _, pr := range ex.Results {
		for _, ob := range pr.Obls {
			if ob.Status == "violated" && ob.Msg == v.ob.Msg && ob.Kind == v.ob.Kind {
				return true
			}
		}
	}
	return false
}
