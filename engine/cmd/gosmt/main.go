// gosmt: bounded symbolic execution of go/ssa functions of /repo with SMT
// solvers deciding every branch feasibility and assertion; native replay of
// counterexamples and witnesses through `go test -overlay`.
package main

import (
	"bytes"
	"encoding/json"
	"flag"
	"fmt"
	"go/ast"
	"go/parser"
	"go/printer"
	"go/token"
	"os"
	"os/exec"
	"path/filepath"
	"sort"
	"strconv"
	"strings"
	"time"

	"golang.org/x/tools/go/packages"
	"golang.org/x/tools/go/ssa"
	"golang.org/x/tools/go/ssa/ssautil"

	"gosmt/sx"
)

const modPath = "github.com/git-lfs/git-lfs/v3"

type Unit struct {
	Dir      string    `json:"dir"`
	Files    []string  `json:"files"`
	Entries  []string  `json:"entries"`
	Extra    []string  `json:"extra_packages"`
	Rewrites []Rewrite `json:"native_rewrites"`
	NowHooks []string  `json:"now_hook_imports"` // import paths of other packages whose time.Now calls are rewritten
	Shims    []Shim    `json:"shims"`            // extra files injected into other packages (engine and native)
}

type Shim struct {
	Dir  string `json:"dir"`
	File string `json:"file"`
}

type Config struct {
	Property         string                      `json:"property"`
	PreCmd           string                      `json:"pre_cmd"`
	Units            []Unit                      `json:"units"`
	Unwind           map[string]int              `json:"unwind"`
	TimeoutMs        map[string]int              `json:"timeout_ms"`
	MaxPaths         map[string]int              `json:"max_paths"`
	MaxSteps         int64                       `json:"max_steps"`
	Redirects        map[string]string           `json:"redirects"`
	Assumptions      []string                    `json:"assumptions"`
	Bounds           map[string]map[string]int64 `json:"bounds"`
	ReverseMaps      bool                        `json:"reverse_maps_in_thorough"`
	SkipEntriesQuick []string                    `json:"thorough_only_entries"`
	BudgetS          map[string]int              `json:"budget_s"`
	// entries whose counterexamples involve a kill -9 in mid-call: they cannot be
	// replayed natively and are confirmed by re-executing the path in the engine
	// with every input pinned to the model (concrete run of the interpreter)
	EngineConfirmed []string `json:"engine_confirmed_entries"`
}

type Finding struct {
	ID       string `json:"id"`
	Property string `json:"property"`
	Status   string `json:"status"` // known | fixed
	What     string `json:"what"`
	Commit   string `json:"commit,omitempty"`
}

var (
	verifDir    = "/verif"
	repoDir     = "/repo"
	evidenceDir = "/verif/evidence"
)

func main() {
	if v := os.Getenv("VERIF_REPO"); v != "" {
		repoDir = v // scratch worktree (used only when testing the checks against seeded changes)
	}
	if v := os.Getenv("VERIF_EVIDENCE_DIR"); v != "" {
		evidenceDir = v
	}
	if len(os.Args) < 2 {
		fmt.Fprintln(os.Stderr, "usage: gosmt check|replay ...")
		os.Exit(2)
	}
	switch os.Args[1] {
	case "check":
		os.Exit(cmdCheck(os.Args[2:]))
	case "replay":
		os.Exit(cmdReplay(os.Args[2:]))
	}
	fmt.Fprintln(os.Stderr, "unknown command")
	os.Exit(2)
}

func loadConfig(id string) (*Config, string) {
	dir := filepath.Join(verifDir, "harness", id)
	data, err := os.ReadFile(filepath.Join(dir, "harness.json"))
	if err != nil {
		fatal("ENGINE-CONFIG: %v", err)
	}
	c := &Config{}
	if err := json.Unmarshal(data, c); err != nil {
		fatal("ENGINE-CONFIG: %v", err)
	}
	return c, dir
}

func fatal(format string, args ...interface{}) {
	fmt.Printf(format+"\n", args...)
	os.Exit(3)
}

func loadFindings() []Finding {
	data, err := os.ReadFile(filepath.Join(verifDir, "known_findings.json"))
	if err != nil {
		return nil
	}
	var f struct {
		Findings []Finding `json:"findings"`
	}
	if err := json.Unmarshal(data, &f); err != nil {
		fatal("ENGINE-CONFIG: known_findings.json: %v", err)
	}
	return f.Findings
}

func pkgName(dir string) string {
	// package name of the directory in /repo: read it from any non-test go file
	ents, _ := os.ReadDir(filepath.Join(repoDir, dir))
	for _, e := range ents {
		n := e.Name()
		if strings.HasSuffix(n, ".go") && !strings.HasSuffix(n, "_test.go") {
			data, _ := os.ReadFile(filepath.Join(repoDir, dir, n))
			for _, line := range strings.Split(string(data), "\n") {
				line = strings.TrimSpace(line)
				if strings.HasPrefix(line, "package ") {
					return strings.Fields(line)[1]
				}
			}
		}
	}
	return filepath.Base(dir)
}

func prelude(name, pkg string) []byte {
	data, err := os.ReadFile(filepath.Join(verifDir, "engine", "rt", name))
	if err != nil {
		fatal("ENGINE-CONFIG: %v", err)
	}
	return []byte(strings.Replace(string(data), "PKGNAME", pkg, 1))
}

// overlayFor builds the virtual files for one unit.
// patchedHarness: harness files whose entries were unbound because they no
// longer compile against /repo (key: path under the harness directory).
var patchedHarness = map[string][]byte{}

// unboundEntries: entries whose body was replaced (they are skipped).
var unboundEntries = map[string]bool{}

func readHarness(path string) ([]byte, error) {
	if d, ok := patchedHarness[path]; ok {
		return d, nil
	}
	return os.ReadFile(path)
}

func overlayFor(hdir string, u Unit, overlay map[string][]byte) {
	pkg := pkgName(u.Dir)
	for _, f := range u.Files {
		data, err := readHarness(filepath.Join(hdir, f))
		if err != nil {
			fatal("ENGINE-CONFIG: %v", err)
		}
		overlay[filepath.Join(repoDir, u.Dir, "zz_verif_"+filepath.Base(f))] = data
	}
	overlay[filepath.Join(repoDir, u.Dir, "zz_verif_rt.go")] = prelude("prelude.go.txt", pkg)
	for _, sh := range u.Shims {
		data, err := os.ReadFile(filepath.Join(hdir, sh.File))
		if err != nil {
			fatal("ENGINE-CONFIG: %v", err)
		}
		overlay[filepath.Join(repoDir, sh.Dir, "zz_verif_"+filepath.Base(sh.File))] = data
	}
}

type EntryResult struct {
	Entry       string
	Unit        Unit
	Explorer    *sx.Explorer
	Wall        float64
	CoverLabels []string
}

func cmdCheck(args []string) int {
	fs := flag.NewFlagSet("check", flag.ExitOnError)
	id := fs.String("id", "", "property id")
	tier := fs.String("tier", "quick", "quick|thorough")
	only := fs.String("entry", "", "run only this entry")
	trace := fs.Bool("trace", false, "trace instructions")
	workers := fs.Int("workers", 16, "parallel path workers")
	noReplay := fs.Bool("no-replay", false, "skip native replay")
	fs.Parse(args)
	t0 := time.Now()
	seed := 1
	if s := os.Getenv("VERIF_SEED"); s != "" {
		if n, err := strconv.Atoi(s); err == nil {
			seed = n
		}
	}
	cfg, hdir := loadConfig(*id)
	known := map[string]bool{}
	findings := loadFindings()
	for _, f := range findings {
		if f.Status == "known" && f.Property == *id {
			known[f.ID] = true
		}
	}

	if cfg.PreCmd != "" {
		out, err := exec.Command("bash", "-c", cfg.PreCmd).CombinedOutput()
		if err != nil {
			fatal("ENGINE-CONFIG: pre_cmd failed: %v\n%s", err, out)
		}
	}
	overlay := map[string][]byte{}
	var patterns []string
	for _, u := range cfg.Units {
		overlayFor(hdir, u, overlay)
		patterns = append(patterns, modPath+"/"+u.Dir)
		for _, e := range u.Extra {
			patterns = append(patterns, e)
		}
	}
	// Go-source models package
	if ents, err := os.ReadDir(filepath.Join(verifDir, "engine", "models")); err == nil {
		for _, e := range ents {
			if strings.HasSuffix(e.Name(), ".go") {
				data, _ := os.ReadFile(filepath.Join(verifDir, "engine", "models", e.Name()))
				overlay[filepath.Join(repoDir, "zz_verifrt", e.Name())] = data
			}
		}
		patterns = append(patterns, modPath+"/zz_verifrt")
	}
	// function stubs named for native replay are the engine's redirects, too
	// (per unit: the entries of a unit see that unit's stubs only, as in replay)
	if cfg.Redirects == nil {
		cfg.Redirects = map[string]string{}
	}
	unitRedirects := map[int]map[string]string{}
	for k, u := range cfg.Units {
		m := map[string]string{}
		for n, t := range cfg.Redirects {
			m[n] = t
		}
		for _, rw := range u.Rewrites {
			for fn, stub := range rw.Funcs {
				pkgPath := modPath + "/" + rw.Dir
				name := pkgPath + "." + fn
				if strings.HasPrefix(fn, "(") {
					// (*T).m or (T).m
					close := strings.Index(fn, ")")
					recv := fn[1:close]
					star := ""
					if strings.HasPrefix(recv, "*") {
						star, recv = "*", recv[1:]
					}
					name = "(" + star + pkgPath + "." + recv + ")" + fn[close+1:]
				}
				m[name] = pkgPath + "." + stub
			}
		}
		unitRedirects[k] = m
	}
	prog, pkgs := loadProgram(patterns, overlay)
	for attempt := 0; prog == nil && attempt < 4; attempt++ {
		if !unbindBroken(hdir, cfg) {
			break
		}
		for _, u := range cfg.Units {
			overlayFor(hdir, u, overlay)
		}
		prog, pkgs = loadProgram(patterns, overlay)
	}
	if prog == nil {
		for _, e := range loadErrors {
			fmt.Printf("ENGINE-BIND: %v\n", e)
		}
		os.Exit(3)
	}

	var results []*EntryResult
	for uk, u := range cfg.Units {
		ssapkg := findPkg(prog, pkgs, modPath+"/"+u.Dir)
		if ssapkg == nil {
			fatal("ENGINE-BIND: package %s not loaded", u.Dir)
		}
		for _, entry := range u.Entries {
			if *only != "" && *only != entry {
				continue
			}
			if *tier == "quick" && contains(cfg.SkipEntriesQuick, entry) {
				continue
			}
			if unboundEntries[entry] {
				continue
			}
			fn := ssapkg.Func(entry)
			if fn == nil {
				fatal("ENGINE-BIND: harness entry %s not found in %s", entry, u.Dir)
			}
			ex := &sx.Explorer{Prog: prog, Hub: sx.NewSolverHub(), Harness: fn, HarnessName: entry,
				Workers: *workers, Unwind: pick(cfg.Unwind, *tier, 8), MaxSteps: 3000000,
				MaxPaths: pick(cfg.MaxPaths, *tier, 20000), TimeoutMs: pick(cfg.TimeoutMs, *tier, 30000),
				Seed: seed, Tier: *tier, Trace: *trace, Known: known, Redirects: unitRedirects[uk],
				Bounds: cfg.Bounds[*tier], MaxUnknown: 6}
			if fx := os.Getenv("GOSMT_FIX"); fx != "" {
				// debugging: GOSMT_FIX='name#0=<smt literal>;name2#0=...'
				ex.Fixed = map[string]string{}
				for _, kv := range strings.Split(fx, ";") {
					if k := strings.Index(kv, "="); k > 0 {
						ex.Fixed[kv[:k]] = kv[k+1:]
					}
				}
			}
			if cfg.MaxSteps > 0 {
				ex.MaxSteps = cfg.MaxSteps
			}
			if b := pick(cfg.BudgetS, *tier, map[string]int{"quick": 900, "thorough": 3000}[*tier]); b > 0 {
				ex.Deadline = time.Now().Add(time.Duration(b) * time.Second)
			}
			if *trace {
				ex.Workers = 1
			}
			te := time.Now()
			ex.Run()
			results = append(results, &EntryResult{Entry: entry, Unit: u, Explorer: ex, Wall: time.Since(te).Seconds(),
				CoverLabels: coverLabels(fn)})
		}
	}
	rc := report(*id, *tier, seed, cfg, hdir, results, findings, t0, *noReplay, prog)
	if rc == 0 && len(unboundEntries) > 0 {
		// part of the check could not be bound to the code under analysis: no verdict
		rc = 3
	}
	return rc
}

func contains(xs []string, s string) bool {
	for _, x := range xs {
		if x == s {
			return true
		}
	}
	return false
}

func pick(m map[string]int, tier string, def int) int {
	if v, ok := m[tier]; ok {
		return v
	}
	return def
}

var loadErrors []packages.Error

// unbindBroken: type errors inside harness functions (a kernel changed its
// signature, a name disappeared): the enclosing harness functions get an empty
// body and are skipped, so that the other entries still run. Returns false if
// an error lies outside harness function bodies.
func unbindBroken(hdir string, cfg *Config) bool {
	type loc struct {
		file string
		line int
	}
	var locs []loc
	for _, e := range loadErrors {
		// Pos is "file:line:col"
		parts := strings.Split(e.Pos, ":")
		if len(parts) < 2 || !strings.Contains(parts[0], "zz_verif_") {
			return false
		}
		n, err := strconv.Atoi(parts[1])
		if err != nil {
			return false
		}
		locs = append(locs, loc{parts[0], n})
	}
	if len(locs) == 0 {
		return false
	}
	progress := false
	for _, u := range cfg.Units {
		for _, f := range u.Files {
			virt := filepath.Join(repoDir, u.Dir, "zz_verif_"+filepath.Base(f))
			var lines []int
			for _, l := range locs {
				if l.file == virt {
					lines = append(lines, l.line)
				}
			}
			if len(lines) == 0 {
				continue
			}
			src, err := readHarness(filepath.Join(hdir, f))
			if err != nil {
				return false
			}
			fset := token.NewFileSet()
			af, err := parser.ParseFile(fset, virt, src, parser.ParseComments)
			if err != nil {
				return false
			}
			for _, ln := range lines {
				found := false
				for _, d := range af.Decls {
					fd, ok := d.(*ast.FuncDecl)
					if !ok || fd.Body == nil {
						continue
					}
					if fset.Position(fd.Pos()).Line <= ln && ln <= fset.Position(fd.End()).Line {
						if fset.Position(fd.Body.Lbrace).Line > ln {
							return false // the error is in the signature
						}
						if fd.Type.Results != nil && len(fd.Type.Results.List) > 0 {
							fd.Body = &ast.BlockStmt{List: []ast.Stmt{&ast.ExprStmt{X: &ast.CallExpr{Fun: ast.NewIdent("panic"), Args: []ast.Expr{&ast.BasicLit{Kind: token.STRING, Value: "\"unbound harness function\""}}}}}}
						} else {
							fd.Body = &ast.BlockStmt{}
						}
						unboundEntries[fd.Name.Name] = true
						fmt.Printf("ENGINE-UNBOUND: %s no longer compiles against /repo (%s:%d); it is skipped\n", fd.Name.Name, filepath.Base(f), ln)
						found, progress = true, true
					}
				}
				if !found {
					return false
				}
			}
			// drop imports that became unused
			var buf bytes.Buffer
			if err := printer.Fprint(&buf, fset, af); err != nil {
				return false
			}
			patchedHarness[filepath.Join(hdir, f)] = fixUnusedImports(buf.Bytes())
		}
	}
	return progress
}

// fixUnusedImports blanks imports no selector refers to any more.
func fixUnusedImports(src []byte) []byte {
	fset := token.NewFileSet()
	f, err := parser.ParseFile(fset, "x.go", src, parser.ParseComments)
	if err != nil {
		return src
	}
	used := map[string]bool{}
	ast.Inspect(f, func(n ast.Node) bool {
		if sel, ok := n.(*ast.SelectorExpr); ok {
			if id, ok := sel.X.(*ast.Ident); ok {
				used[id.Name] = true
			}
		}
		return true
	})
	for _, imp := range f.Imports {
		name := ""
		if imp.Name != nil {
			name = imp.Name.Name
		} else {
			p := strings.Trim(imp.Path.Value, "\"")
			name = p[strings.LastIndex(p, "/")+1:]
			if strings.HasPrefix(name, "v") && len(name) <= 3 && strings.Count(p, "/") > 0 {
				q := p[:strings.LastIndex(p, "/")]
				name = q[strings.LastIndex(q, "/")+1:]
			}
		}
		if name == "_" || name == "." {
			continue
		}
		if !used[name] {
			imp.Name = ast.NewIdent("_")
		}
	}
	var buf bytes.Buffer
	if err := printer.Fprint(&buf, fset, f); err != nil {
		return src
	}
	return buf.Bytes()
}

func loadProgram(patterns []string, overlay map[string][]byte) (*ssa.Program, []*packages.Package) {
	cfg := &packages.Config{
		Mode: packages.NeedName | packages.NeedFiles | packages.NeedCompiledGoFiles | packages.NeedImports |
			packages.NeedDeps | packages.NeedTypes | packages.NeedSyntax | packages.NeedTypesInfo | packages.NeedTypesSizes | packages.NeedModule,
		Dir:     repoDir,
		Overlay: overlay,
		Env:     append(os.Environ(), "GOFLAGS=-mod=mod", "GOPROXY=off", "GOSUMDB=off", "GOTOOLCHAIN=local", "CGO_ENABLED=0"),
	}
	pkgs, err := packages.Load(cfg, patterns...)
	if err != nil {
		fatal("ENGINE-LOAD: %v", err)
	}
	bad := false
	loadErrors = nil
	packages.Visit(pkgs, nil, func(p *packages.Package) {
		for _, e := range p.Errors {
			if strings.HasPrefix(p.PkgPath, modPath) {
				loadErrors = append(loadErrors, e)
				bad = true
			}
		}
	})
	if bad {
		return nil, nil
	}
	prog, _ := ssautil.AllPackages(pkgs, ssa.InstantiateGenerics)
	prog.Build()
	return prog, pkgs
}

func findPkg(prog *ssa.Program, pkgs []*packages.Package, path string) *ssa.Package {
	for _, p := range pkgs {
		if p.PkgPath == path {
			return prog.Package(p.Types)
		}
	}
	return nil
}

// coverLabels collects constant labels of verifCover calls reachable from the
// entry through functions of the same package.
func coverLabels(entry *ssa.Function) []string {
	seen := map[*ssa.Function]bool{}
	labels := map[string]bool{}
	var visit func(f *ssa.Function)
	visit = func(f *ssa.Function) {
		if f == nil || seen[f] || f.Blocks == nil {
			return
		}
		seen[f] = true
		for _, b := range f.Blocks {
			for _, ins := range b.Instrs {
				var cc *ssa.CallCommon
				switch ins := ins.(type) {
				case *ssa.Call:
					cc = &ins.Call
				case *ssa.Defer:
					cc = &ins.Call
				case *ssa.Go:
					cc = &ins.Call
				case *ssa.MakeClosure:
					visit(ins.Fn.(*ssa.Function))
					continue
				default:
					continue
				}
				if callee := cc.StaticCallee(); callee != nil {
					if callee.Name() == "verifCover" && len(cc.Args) == 1 {
						if c, ok := cc.Args[0].(*ssa.Const); ok {
							labels[strings.Trim(c.Value.ExactString(), "\"")] = true
						}
					} else if callee.Pkg == entry.Pkg && strings.Contains(fileOf(callee), "zz_verif_") {
						visit(callee)
					}
				}
			}
		}
	}
	visit(entry)
	var out []string
	for l := range labels {
		out = append(out, l)
	}
	sort.Strings(out)
	return out
}

func fileOf(f *ssa.Function) string {
	if f.Pos().IsValid() {
		return f.Prog.Fset.Position(f.Pos()).Filename
	}
	return ""
}

// ---------------------------------------------------------------- replay

type Script struct {
	Entry  string                 `json:"entry"`
	Tier   string                 `json:"tier"`
	Vals   map[string]sx.ModelVal `json:"vals"`
	Bounds map[string]int64       `json:"bounds"`
}

type NativeResult struct {
	Covers   []string         `json:"covers"`
	Observes []sx.ObservedVal `json:"observes"`
	Failures []string         `json:"failures"`
	Missing  []string         `json:"missing"`
	Outcome  string           `json:"outcome"`
	Msg      string           `json:"msg"`
}

// nativeRun executes scripts for the entries of one unit against the real build.
func nativeRun(hdir string, u Unit, scripts map[string]*Script) (map[string]*NativeResult, string) {
	tmp, err := os.MkdirTemp("", "gosmt-replay-")
	if err != nil {
		return nil, err.Error()
	}
	defer os.RemoveAll(tmp)
	pkg := pkgName(u.Dir)
	replace := map[string]string{}
	for _, f := range u.Files {
		src := filepath.Join(hdir, f)
		if d, ok := patchedHarness[src]; ok {
			src = filepath.Join(tmp, "patched_"+filepath.Base(f))
			os.WriteFile(src, d, 0644)
		}
		replace[filepath.Join(repoDir, u.Dir, "zz_verif_"+filepath.Base(f))] = src
	}
	for _, sh := range u.Shims {
		replace[filepath.Join(repoDir, sh.Dir, "zz_verif_"+filepath.Base(sh.File))] = filepath.Join(hdir, sh.File)
	}
	pre := filepath.Join(tmp, "prelude.go")
	os.WriteFile(pre, prelude("prelude.go.txt", pkg), 0644)
	replace[filepath.Join(repoDir, u.Dir, "zz_verif_rt.go")] = pre
	shimDone := map[string]bool{}
	for k, rw := range u.Rewrites {
		src, err := applyRewrite(rw)
		if err != nil {
			return nil, "ENGINE-REWRITE: " + err.Error()
		}
		replace[filepath.Join(repoDir, rw.Dir, rw.File)] = writeTemp(tmp, fmt.Sprintf("rw%d_%s", k, rw.File), src)
		if rw.Dir != u.Dir && !shimDone[rw.Dir] {
			shimDone[rw.Dir] = true
			replace[filepath.Join(repoDir, rw.Dir, "zz_verif_shim.go")] = writeTemp(tmp, "shim_"+strings.ReplaceAll(rw.Dir, "/", "_")+".go", shimFor(pkgName(rw.Dir)))
		}
	}
	var ents []string
	for _, e := range u.Entries {
		ents = append(ents, fmt.Sprintf("\t%q: %s,", e, e))
	}
	tst := strings.Replace(string(prelude("replay_test.go.txt", pkg)), "ENTRIES", strings.Join(ents, "\n"), 1)
	var hookImports, hookSets []string
	for k, imp := range u.NowHooks {
		hookImports = append(hookImports, fmt.Sprintf("\tverif_hook%d %q", k, imp))
		hookSets = append(hookSets, fmt.Sprintf("\tverif_hook%d.VerifNowHook = verifNow", k))
	}
	tst = strings.Replace(tst, "HOOKIMPORTS", strings.Join(hookImports, "\n"), 1)
	tst = strings.Replace(tst, "HOOKSETS", strings.Join(hookSets, "\n"), 1)
	tf := filepath.Join(tmp, "replay_test.go")
	os.WriteFile(tf, []byte(tst), 0644)
	replace[filepath.Join(repoDir, u.Dir, "zz_verif_replay_test.go")] = tf
	ov, _ := json.Marshal(map[string]interface{}{"Replace": replace})
	ovf := filepath.Join(tmp, "overlay.json")
	os.WriteFile(ovf, ov, 0644)
	sdir := filepath.Join(tmp, "scripts")
	os.MkdirAll(sdir, 0755)
	for name, s := range scripts {
		data, _ := json.Marshal(s)
		os.WriteFile(filepath.Join(sdir, name+".script.json"), data, 0644)
	}
	cmd := exec.Command("go", "test", "-vet=off", "-count=1", "-run", "^TestVerifReplay$", "-overlay", ovf, "./"+u.Dir)
	cmd.Dir = repoDir
	cmd.Env = append(os.Environ(), "GOFLAGS=-mod=mod", "GOPROXY=off", "GOSUMDB=off", "GOTOOLCHAIN=local", "VERIF_SCRIPTS="+sdir)
	out, err := cmd.CombinedOutput()
	res := map[string]*NativeResult{}
	for name := range scripts {
		data, rerr := os.ReadFile(filepath.Join(sdir, name+".script.json.result"))
		if rerr != nil {
			continue
		}
		nr := &NativeResult{}
		json.Unmarshal(data, nr)
		res[name] = nr
	}
	if err != nil && len(res) == 0 {
		return nil, string(out)
	}
	return res, ""
}

func cmdReplay(args []string) int {
	fs := flag.NewFlagSet("replay", flag.ExitOnError)
	id := fs.String("id", "", "property id")
	path := fs.String("path", "", "replay directory")
	fs.Parse(args)
	cfg, hdir := loadConfig(*id)
	data, err := os.ReadFile(filepath.Join(*path, "script.json"))
	if err != nil {
		fatal("replay: %v", err)
	}
	s := &Script{}
	json.Unmarshal(data, s)
	for _, u := range cfg.Units {
		if !contains(u.Entries, s.Entry) {
			continue
		}
		res, errOut := nativeRun(hdir, u, map[string]*Script{"r": s})
		if res == nil {
			fmt.Println("replay build failed:\n" + errOut)
			return 3
		}
		out, _ := json.MarshalIndent(res["r"], "", " ")
		fmt.Println(string(out))
		if r := res["r"]; r != nil && (r.Outcome == "assert" || r.Outcome == "panic") {
			fmt.Printf("VIOLATION property=%s replay=%s\n", *id, *path)
			return 1
		}
		return 0
	}
	fatal("replay: entry %s not found", s.Entry)
	return 3
}
