package main

// Native-replay source rewrites: copies of /repo files in which selected
// calls (e.g. time.Now) or function bodies are redirected to harness stubs.
// The copies live in the temporary overlay only; /repo is never written.

import (
	"bytes"
	"fmt"
	"go/ast"
	"go/parser"
	"go/printer"
	"go/token"
	"os"
	"path/filepath"
	"strings"
)

type Rewrite struct {
	Dir   string            `json:"dir"`
	File  string            `json:"file"`
	Calls map[string]string `json:"calls"` // "time.Now" -> "verifNow"
	Funcs map[string]string `json:"funcs"` // "(*T).m" or "f" -> stub function name
	// "x.M" -> "stub": a method call on the local variable x becomes stub(x, args...)
	MethodCalls map[string]string `json:"method_calls"`
}

// applyRewrite returns the rewritten source of one file.
func applyRewrite(rw Rewrite) ([]byte, error) {
	path := filepath.Join(repoDir, rw.Dir, rw.File)
	fset := token.NewFileSet()
	f, err := parser.ParseFile(fset, path, nil, parser.ParseComments)
	if err != nil {
		return nil, err
	}
	done := map[string]bool{}
	ast.Inspect(f, func(n ast.Node) bool {
		call, ok := n.(*ast.CallExpr)
		if !ok {
			return true
		}
		if sel, ok := call.Fun.(*ast.SelectorExpr); ok {
			if id, ok := sel.X.(*ast.Ident); ok {
				if to, ok := rw.Calls[id.Name+"."+sel.Sel.Name]; ok {
					call.Fun = ast.NewIdent(to)
					done[id.Name+"."+sel.Sel.Name] = true
				} else if to, ok := rw.MethodCalls[id.Name+"."+sel.Sel.Name]; ok {
					call.Fun = ast.NewIdent(to)
					call.Args = append([]ast.Expr{ast.NewIdent(id.Name)}, call.Args...)
					done[id.Name+"."+sel.Sel.Name] = true
				}
			}
		}
		return true
	})
	for _, d := range f.Decls {
		fd, ok := d.(*ast.FuncDecl)
		if !ok || fd.Body == nil {
			continue
		}
		name := fd.Name.Name
		var recvName string
		if fd.Recv != nil && len(fd.Recv.List) == 1 {
			t := fd.Recv.List[0].Type
			star := ""
			if st, ok := t.(*ast.StarExpr); ok {
				star = "*"
				t = st.X
			}
			if id, ok := t.(*ast.Ident); ok {
				name = "(" + star + id.Name + ")." + fd.Name.Name
			}
			if len(fd.Recv.List[0].Names) == 0 {
				fd.Recv.List[0].Names = []*ast.Ident{ast.NewIdent("verifRecv")}
			} else if fd.Recv.List[0].Names[0].Name == "_" {
				fd.Recv.List[0].Names[0] = ast.NewIdent("verifRecv")
			}
			recvName = fd.Recv.List[0].Names[0].Name
		}
		stub, ok := rw.Funcs[name]
		if !ok {
			continue
		}
		done[name] = true
		var args []ast.Expr
		if recvName != "" {
			args = append(args, ast.NewIdent(recvName))
		}
		k := 0
		var ellipsis token.Pos
		for _, p := range fd.Type.Params.List {
			if len(p.Names) == 0 {
				p.Names = []*ast.Ident{ast.NewIdent(fmt.Sprintf("verifArg%d", k))}
				k++
			}
			for i, nm := range p.Names {
				if nm.Name == "_" {
					p.Names[i] = ast.NewIdent(fmt.Sprintf("verifArg%d", k))
					k++
				}
				args = append(args, ast.NewIdent(p.Names[i].Name))
			}
			if _, ok := p.Type.(*ast.Ellipsis); ok {
				ellipsis = 1
			}
		}
		callExpr := &ast.CallExpr{Fun: ast.NewIdent(stub), Args: args, Ellipsis: ellipsis}
		var stmt ast.Stmt
		if fd.Type.Results != nil && len(fd.Type.Results.List) > 0 {
			stmt = &ast.ReturnStmt{Results: []ast.Expr{callExpr}}
		} else {
			stmt = &ast.ExprStmt{X: callExpr}
		}
		fd.Body = &ast.BlockStmt{List: []ast.Stmt{stmt}}
	}
	for k := range rw.Calls {
		if !done[k] {
			return nil, fmt.Errorf("rewrite: call %s not found in %s/%s", k, rw.Dir, rw.File)
		}
	}
	for k := range rw.MethodCalls {
		if !done[k] {
			return nil, fmt.Errorf("rewrite: method call %s not found in %s/%s", k, rw.Dir, rw.File)
		}
	}
	for k := range rw.Funcs {
		if !done[k] {
			return nil, fmt.Errorf("rewrite: function %s not found in %s/%s", k, rw.Dir, rw.File)
		}
	}
	// imports that became unused would break the build: blank them
	used := map[string]bool{}
	ast.Inspect(f, func(n ast.Node) bool {
		if sel, ok := n.(*ast.SelectorExpr); ok {
			if id, ok := sel.X.(*ast.Ident); ok {
				used[id.Name] = true
			}
		}
		return true
	})
	for _, imp := range f.Imports {
		name := ""
		if imp.Name != nil {
			name = imp.Name.Name
		} else {
			p := strings.Trim(imp.Path.Value, "\"")
			name = p[strings.LastIndex(p, "/")+1:]
			if strings.HasPrefix(name, "v") && len(name) <= 3 && strings.Count(p, "/") > 0 {
				q := p[:strings.LastIndex(p, "/")]
				name = q[strings.LastIndex(q, "/")+1:]
			}
		}
		if name == "_" || name == "." {
			continue
		}
		if !used[name] {
			imp.Name = ast.NewIdent("_")
		}
	}
	var buf bytes.Buffer
	if err := printer.Fprint(&buf, fset, f); err != nil {
		return nil, err
	}
	src := buf.String()
	return []byte(src), nil
}

// shimFor: hook file for a package that is not the harness package; the
// harness test wires the hooks to the script-driven implementations.
func shimFor(pkg string) []byte {
	return []byte("package " + pkg + `

import verif_time "time"

// VerifNowHook is set by the replay test of the harness package.
var VerifNowHook func() verif_time.Time

func verifNow() verif_time.Time {
	if VerifNowHook != nil {
		return VerifNowHook()
	}
	return verif_time.Now()
}
`)
}

func writeTemp(dir, name string, data []byte) string {
	p := filepath.Join(dir, name)
	os.MkdirAll(filepath.Dir(p), 0755)
	os.WriteFile(p, data, 0644)
	return p
}
