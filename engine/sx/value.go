package sx

// Value model (after golang.org/x/tools/go/ssa/interp, simplified):
//
//  bool | *Sym(Bool)
//  int64 | *Sym(Int)        every integer kind; the static type gives width/sign
//  float64
//  string | *Sym(String)
//  *value                    pointer to a memory cell
//  *bytePtr                  pointer to one byte of a byte array
//  structure, array, tuple
//  iface{t, v}
//  []value                   slice of anything but bytes (concrete length)
//  *byteSlice                []byte: (array object, off, len, cap) with Int terms
//  *omap                     map with deterministic (insertion) order
//  *channel                  FIFO channel (sequentialised goroutines)
//  *ssa.Function, *ssa.Builtin, *closure
//  *nativeObj                engine-side object (regexp, model state ...)
//  poison                    result of an unsupported operation during init

import (
	"bytes"
	"fmt"
	"go/types"
	"sort"

	"golang.org/x/tools/go/ssa"
)

type value = interface{}

type tuple []value

type array []value

type structure []value

type iface struct {
	t types.Type
	v value
}

type closure struct {
	Fn  *ssa.Function
	Env []value
}

type poison struct{ why string }

type nativeObj struct {
	kind string
	v    interface{}
}

// byteArr is the backing store of a []byte: one string term of length cap.
type byteArr struct {
	content value // string | *Sym(String)
}

type byteSlice struct {
	arr           *byteArr
	off, len, cap value // int64 | *Sym(Int)
}

// byteArray is a [N]byte value (value semantics: copied on load/store).
type byteArray struct {
	arr *byteArr
	n   int64
}

type bytePtr struct {
	arr *byteArr
	idx value
}

// unsupported is the panic raised when the engine cannot model something.
type unsupported struct{ msg string }

func (u unsupported) Error() string { return "unsupported: " + u.msg }

func unsup(format string, args ...interface{}) {
	panic(unsupported{fmt.Sprintf(format, args...)})
}

func mustDeref(t types.Type) types.Type {
	if p, ok := t.Underlying().(*types.Pointer); ok {
		return p.Elem()
	}
	panic(fmt.Sprintf("mustDeref: %s", t))
}

func isByteSliceType(t types.Type) bool {
	s, ok := t.Underlying().(*types.Slice)
	if !ok {
		return false
	}
	b, ok := s.Elem().Underlying().(*types.Basic)
	return ok && b.Kind() == types.Uint8
}

func isByteArrayType(t types.Type) bool {
	s, ok := t.Underlying().(*types.Array)
	if !ok {
		return false
	}
	b, ok := s.Elem().Underlying().(*types.Basic)
	return ok && b.Kind() == types.Uint8
}

// zero returns a new zero value of type t.
func zero(t types.Type) value {
	switch t := t.(type) {
	case *types.Basic:
		if t.Info()&types.IsUntyped != 0 {
			if t.Kind() == types.UntypedNil {
				panic("untyped nil has no zero value")
			}
			t = types.Default(t).(*types.Basic)
		}
		switch {
		case t.Info()&types.IsBoolean != 0:
			return false
		case t.Info()&types.IsInteger != 0:
			return int64(0)
		case t.Info()&types.IsFloat != 0:
			return float64(0)
		case t.Info()&types.IsString != 0:
			return ""
		case t.Kind() == types.UnsafePointer:
			return (*value)(nil)
		case t.Info()&types.IsComplex != 0:
			return poison{"complex"}
		}
		panic(fmt.Sprint("zero for unexpected type:", t))
	case *types.Pointer:
		return (*value)(nil)
	case *types.Array:
		if isByteArrayType(t) {
			return byteArray{arr: &byteArr{content: zeroBytes(t.Len())}, n: t.Len()}
		}
		a := make(array, t.Len())
		for i := range a {
			a[i] = zero(t.Elem())
		}
		return a
	case *types.Named:
		return zero(t.Underlying())
	case *types.Alias:
		return zero(types.Unalias(t))
	case *types.Interface:
		return iface{}
	case *types.Slice:
		if isByteSliceType(t) {
			return (*byteSlice)(nil)
		}
		return []value(nil)
	case *types.Struct:
		s := make(structure, t.NumFields())
		for i := range s {
			s[i] = zero(t.Field(i).Type())
		}
		return s
	case *types.Tuple:
		if t.Len() == 1 {
			return zero(t.At(0).Type())
		}
		s := make(tuple, t.Len())
		for i := range s {
			s[i] = zero(t.At(i).Type())
		}
		return s
	case *types.Chan:
		return (*channel)(nil)
	case *types.Map:
		return (*omap)(nil)
	case *types.Signature:
		return (*ssa.Function)(nil)
	case *types.TypeParam:
		panic("zero of type parameter")
	}
	panic(fmt.Sprint("zero: unexpected ", t))
}

// load returns a copy of the value of type T in *addr.
func load(T types.Type, addr *value) value {
	switch T := T.Underlying().(type) {
	case *types.Struct:
		v, ok := (*addr).(structure)
		if !ok {
			return *addr // poison etc.
		}
		a := make(structure, len(v))
		for i := range a {
			a[i] = load(T.Field(i).Type(), &v[i])
		}
		return a
	case *types.Array:
		if ba, ok := (*addr).(byteArray); ok {
			return byteArray{arr: &byteArr{content: ba.arr.content}, n: ba.n}
		}
		v, ok := (*addr).(array)
		if !ok {
			return *addr
		}
		a := make(array, len(v))
		for i := range a {
			a[i] = load(T.Elem(), &v[i])
		}
		return a
	default:
		return *addr
	}
}

// store stores value v of type T into *addr.
func store(T types.Type, addr *value, v value) {
	switch T := T.Underlying().(type) {
	case *types.Struct:
		lhs, ok1 := (*addr).(structure)
		rhs, ok2 := v.(structure)
		if !ok1 || !ok2 {
			*addr = v
			return
		}
		for i := range lhs {
			store(T.Field(i).Type(), &lhs[i], rhs[i])
		}
	case *types.Array:
		if lb, ok := (*addr).(byteArray); ok {
			if rb, ok := v.(byteArray); ok {
				lb.arr.content = rb.arr.content
				return
			}
		}
		lhs, ok1 := (*addr).(array)
		rhs, ok2 := v.(array)
		if !ok1 || !ok2 {
			*addr = v
			return
		}
		for i := range lhs {
			store(T.Elem(), &lhs[i], rhs[i])
		}
	default:
		*addr = v
	}
}

// copyVal makes an unaliased copy of an aggregate value.
func copyVal(v value) value {
	switch v := v.(type) {
	case structure:
		a := make(structure, len(v))
		for i := range a {
			a[i] = copyVal(v[i])
		}
		return a
	case array:
		a := make(array, len(v))
		for i := range a {
			a[i] = copyVal(v[i])
		}
		return a
	case byteArray:
		return byteArray{arr: &byteArr{content: v.arr.content}, n: v.n}
	}
	return v
}

func sameType(x, y types.Type) bool {
	if x == nil {
		return y == nil
	}
	return y != nil && types.Identical(x, y)
}

// equalsV returns the (possibly symbolic) truth value of x == y under Go's
// equivalence for type t.
func (p *Path) equalsV(t types.Type, x, y value) value {
	switch x := x.(type) {
	case bool:
		if ys, ok := y.(*Sym); ok {
			return mkBoolEq(x, ys)
		}
		return x == y.(bool)
	case int64:
		return p.mkIntCmp("=", x, y)
	case float64:
		return x == y.(float64)
	case string:
		return mkStrEq(x, y)
	case *Sym:
		switch x.sort {
		case SInt:
			return p.mkIntCmp("=", x, y)
		case SStr:
			return mkStrEq(x, y)
		case SBool:
			return mkBoolEq(x, y)
		}
	case *value:
		yp, ok := y.(*value)
		if !ok {
			return false
		}
		return x == yp
	case *bytePtr:
		yp, ok := y.(*bytePtr)
		return ok && x.arr == yp.arr && fmt.Sprint(x.idx) == fmt.Sprint(yp.idx)
	case *channel:
		return x == y.(*channel)
	case *nativeObj:
		yo, ok := y.(*nativeObj)
		return ok && x == yo
	case structure:
		ys := y.(structure)
		tS := t.Underlying().(*types.Struct)
		var r value = true
		for i := 0; i < tS.NumFields(); i++ {
			if f := tS.Field(i); f.Name() != "_" {
				r = mkAnd(r, p.equalsV(f.Type(), x[i], ys[i]))
			}
		}
		return r
	case array:
		ya := y.(array)
		tE := t.Underlying().(*types.Array).Elem()
		var r value = true
		for i := range x {
			r = mkAnd(r, p.equalsV(tE, x[i], ya[i]))
		}
		return r
	case byteArray:
		return mkStrEq(x.arr.content, y.(byteArray).arr.content)
	case iface:
		yi := y.(iface)
		if !sameType(x.t, yi.t) {
			return false
		}
		if x.t == nil {
			return true
		}
		return p.equalsV(x.t, x.v, yi.v)
	case *ssa.Function, *closure, *ssa.Builtin:
		unsup("comparing functions")
	case poison:
		unsup("poison: %s", x.why)
	}
	panic(fmt.Sprintf("comparing uncomparable type %s (%T)", t, x))
}

// ---------------------------------------------------------------- printing

func writeValue(buf *bytes.Buffer, v value) {
	switch v := v.(type) {
	case nil, bool, int64, float64, string:
		fmt.Fprintf(buf, "%v", v)
	case *Sym:
		buf.WriteString("«" + v.e + "»")
	case *omap:
		buf.WriteString("map[")
		if v != nil {
			for i, e := range v.entries {
				if i > 0 {
					buf.WriteString(" ")
				}
				writeValue(buf, e.key)
				buf.WriteString(":")
				writeValue(buf, e.val)
			}
		}
		buf.WriteString("]")
	case *value:
		if v == nil {
			buf.WriteString("<nil>")
		} else {
			fmt.Fprintf(buf, "%p", v)
		}
	case iface:
		if v.t == nil {
			buf.WriteString("<nil>")
			return
		}
		fmt.Fprintf(buf, "(%s, ", v.t)
		writeValue(buf, v.v)
		buf.WriteString(")")
	case structure:
		buf.WriteString("{")
		for i, e := range v {
			if i > 0 {
				buf.WriteString(" ")
			}
			writeValue(buf, e)
		}
		buf.WriteString("}")
	case array:
		buf.WriteString("[")
		for i, e := range v {
			if i > 0 {
				buf.WriteString(" ")
			}
			writeValue(buf, e)
		}
		buf.WriteString("]")
	case []value:
		buf.WriteString("[")
		for i, e := range v {
			if i > 0 {
				buf.WriteString(" ")
			}
			writeValue(buf, e)
		}
		buf.WriteString("]")
	case *byteSlice:
		if v == nil {
			buf.WriteString("[]byte(nil)")
		} else {
			fmt.Fprintf(buf, "[]byte{%v off=%v len=%v cap=%v}", v.arr.content, v.off, v.len, v.cap)
		}
	case *ssa.Function, *ssa.Builtin, *closure:
		fmt.Fprintf(buf, "%p", v)
	case tuple:
		buf.WriteString("(")
		for i, e := range v {
			if i > 0 {
				buf.WriteString(", ")
			}
			writeValue(buf, e)
		}
		buf.WriteString(")")
	default:
		fmt.Fprintf(buf, "<%T>", v)
	}
}

func toString(v value) string {
	var b bytes.Buffer
	writeValue(&b, v)
	return b.String()
}

// ---------------------------------------------------------------- maps

type mentry struct {
	key, val value
	dead     bool
}

// omap is a map with insertion-ordered iteration (determinism is required by
// replay-based forking). Keys may be symbolic; lookups then fork.
type omap struct {
	keyT    types.Type
	entries []*mentry
	index   map[interface{}]*mentry // concrete hashable keys only
}

func newOmap(keyT types.Type) *omap {
	return &omap{keyT: keyT, index: map[interface{}]*mentry{}}
}

func hashableKey(k value) (interface{}, bool) {
	switch k := k.(type) {
	case bool, int64, float64, string, *value, *channel, *nativeObj:
		return k, true
	case iface:
		if k.t == nil {
			return "<nil-iface>", true
		}
		if h, ok := hashableKey(k.v); ok {
			return [2]interface{}{k.t.String(), h}, true
		}
	case structure:
		s := "S"
		for _, f := range k {
			h, ok := hashableKey(f)
			if !ok {
				return nil, false
			}
			s += fmt.Sprintf("|%T:%v", h, h)
		}
		return s, true
	case array:
		s := "A"
		for _, f := range k {
			h, ok := hashableKey(f)
			if !ok {
				return nil, false
			}
			s += fmt.Sprintf("|%T:%v", h, h)
		}
		return s, true
	}
	return nil, false
}

func (m *omap) live() []*mentry {
	var r []*mentry
	for _, e := range m.entries {
		if !e.dead {
			r = append(r, e)
		}
	}
	return r
}

func (m *omap) length() int {
	n := 0
	for _, e := range m.entries {
		if !e.dead {
			n++
		}
	}
	return n
}

// find returns the entry for key, forking on symbolic comparisons.
func (m *omap) find(i *interpreter, key value) *mentry {
	if m == nil {
		return nil
	}
	if h, ok := hashableKey(key); ok {
		if e, ok := m.index[h]; ok && !e.dead {
			return e
		}
		// key is concrete: symbolic-keyed entries may still equal it
		for _, e := range m.entries {
			if e.dead {
				continue
			}
			if _, hk := hashableKey(e.key); hk {
				continue
			}
			if i.branch(i.path.equalsV(m.keyT, e.key, key)) {
				return e
			}
		}
		return nil
	}
	for _, e := range m.entries {
		if e.dead {
			continue
		}
		if i.branch(i.path.equalsV(m.keyT, e.key, key)) {
			return e
		}
	}
	return nil
}

func (m *omap) insert(i *interpreter, key, val value) {
	if e := m.find(i, key); e != nil {
		e.val = val
		return
	}
	e := &mentry{key: key, val: val}
	m.entries = append(m.entries, e)
	if h, ok := hashableKey(key); ok {
		m.index[h] = e
	}
}

func (m *omap) remove(i *interpreter, key value) {
	if e := m.find(i, key); e != nil {
		e.dead = true
		if h, ok := hashableKey(key); ok {
			delete(m.index, h)
		}
	}
}

type mapIter struct {
	m    *omap
	keys []*mentry
	pos  int
}

func (it *mapIter) next() tuple {
	for it.pos < len(it.keys) {
		e := it.keys[it.pos]
		it.pos++
		if e.dead {
			continue
		}
		return tuple{true, e.key, copyVal(e.val)}
	}
	return tuple{false, nil, nil}
}

type stringIter struct {
	s   string
	pos int
}

func (it *stringIter) next() tuple {
	if it.pos >= len(it.s) {
		return tuple{false, nil, nil}
	}
	for i, r := range it.s[it.pos:] {
		_ = i
		n := len(string(r))
		if r == 0xFFFD {
			n = 1
		}
		k := it.pos
		it.pos += n
		return tuple{true, int64(k), int64(r)}
	}
	return tuple{false, nil, nil}
}

type iter interface{ next() tuple }

// sortedKeys is used by harness-visible deterministic map order variants.
func sortedStrings(xs []string) []string { sort.Strings(xs); return xs }

// ---------------------------------------------------------------- channels

type channel struct {
	buf    []value
	cap    int
	closed bool
	sent   int // values offered on an unbuffered channel
	recvd  int // values taken by receivers
}

func zeroBytes(n int64) value { return string(make([]byte, n)) }
