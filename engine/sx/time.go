package sx

// time model: a time.Time is its real struct {wall, ext, loc} with wall = 0,
// loc = nil and ext = nanoseconds since the zero Time as an unbounded Int
// (only these intrinsics ever touch it). time.Duration stays an int64 with
// Go's wrap-around arithmetic. time.Now is a nondeterministic non-decreasing clock.

import (
	"go/types"
	"math/big"
	"time"
)

const unixEpochNs = "62135596800000000000" // 0001-01-01 -> 1970-01-01 in ns

func mkTime(ns value) value { return structure{int64(0), ns, (*value)(nil)} }

func timeNs(v value) value {
	s, ok := v.(structure)
	if !ok {
		unsup("time.Time value is %T", v)
	}
	return s[1]
}

func (i *interpreter) clampDuration(v value) value {
	p := i.path
	lo, hi := typeRange(64, true)
	vl, vh := p.ivOf(v)
	if vl != nil && vh != nil && vl.Cmp(lo) >= 0 && vh.Cmp(hi) <= 0 {
		return v
	}
	s, ok := v.(*Sym)
	if !ok {
		return v
	}
	return &Sym{sort: SInt, e: "(ite (< " + s.e + " " + smtBig(lo) + ") " + smtBig(lo) + " (ite (> " + s.e + " " + smtBig(hi) + ") " + smtBig(hi) + " " + s.e + "))", lo: lo, hi: hi}
}

func init() {
	reg := func(name string, h intrinsic) { intrinsics[name] = h }
	reg("time.Now", func(fr *frame, a []value) value {
		i := fr.i
		p := i.path
		now := p.input("time.now", SInt)
		// after 2020-01-01 and before year 2200, non-decreasing
		base, _ := new(big.Int).SetString("63713433600000000000", 10)
		top, _ := new(big.Int).SetString("69400000000000000000", 10)
		p.pc = append(p.pc, "(<= "+base.String()+" "+now.e+")", "(<= "+now.e+" "+top.String()+")")
		p.varIv[now.e] = ival{base, top}
		if i.lastNow != nil {
			p.pc = append(p.pc, "(<= "+tInt(i.lastNow)+" "+now.e+")")
		}
		i.lastNow = now
		return mkTime(now)
	})
	reg("(time.Time).Add", func(fr *frame, a []value) value {
		return mkTime(fr.i.path.mkAdd(timeNs(a[0]), a[1]))
	})
	reg("(time.Time).Sub", func(fr *frame, a []value) value {
		return fr.i.clampDuration(fr.i.path.mkSub(timeNs(a[0]), timeNs(a[1])))
	})
	reg("(time.Time).Before", func(fr *frame, a []value) value {
		return fr.i.path.mkIntCmp("<", timeNs(a[0]), timeNs(a[1]))
	})
	reg("(time.Time).After", func(fr *frame, a []value) value {
		return fr.i.path.mkIntCmp(">", timeNs(a[0]), timeNs(a[1]))
	})
	reg("(time.Time).Equal", func(fr *frame, a []value) value {
		return fr.i.path.mkIntCmp("=", timeNs(a[0]), timeNs(a[1]))
	})
	reg("(time.Time).Compare", func(fr *frame, a []value) value {
		p := fr.i.path
		return mkIte(p.mkIntCmp("<", timeNs(a[0]), timeNs(a[1])), int64(-1), mkIte(p.mkIntCmp(">", timeNs(a[0]), timeNs(a[1])), int64(1), int64(0)))
	})
	reg("(time.Time).IsZero", func(fr *frame, a []value) value {
		return fr.i.path.mkIntCmp("=", timeNs(a[0]), int64(0))
	})
	reg("(time.Time).UnixNano", func(fr *frame, a []value) value {
		p := fr.i.path
		e, _ := new(big.Int).SetString(unixEpochNs, 10)
		return p.wrapSym(&Sym{sort: SInt, e: "(- " + tInt(timeNs(a[0])) + " " + e.String() + ")"}, types.Typ[types.Int64])
	})
	reg("(time.Time).Unix", func(fr *frame, a []value) value {
		return &Sym{sort: SInt, e: "(div (- " + tInt(timeNs(a[0])) + " " + unixEpochNs + ") 1000000000)"}
	})
	reg("(time.Time).UTC", func(fr *frame, a []value) value { return a[0] })
	reg("(time.Time).Local", func(fr *frame, a []value) value { return a[0] })
	reg("(time.Time).In", func(fr *frame, a []value) value { return a[0] })
	reg("(time.Time).Round", func(fr *frame, a []value) value { return a[0] })
	reg("(time.Time).AddDate", func(fr *frame, a []value) value {
		i := fr.i
		y, m := i.concreteInt(a[1], "AddDate years"), i.concreteInt(a[2], "AddDate months")
		if y != 0 || m != 0 {
			unsup("AddDate with years/months")
		}
		day := i.path.mkMul(a[3], int64(86400000000000))
		return mkTime(i.path.mkAdd(timeNs(a[0]), day))
	})
	reg("time.Until", func(fr *frame, a []value) value {
		now := intrinsics["time.Now"](fr, nil)
		return fr.i.clampDuration(fr.i.path.mkSub(timeNs(a[0]), timeNs(now)))
	})
	reg("time.Since", func(fr *frame, a []value) value {
		now := intrinsics["time.Now"](fr, nil)
		return fr.i.clampDuration(fr.i.path.mkSub(timeNs(now), timeNs(a[0])))
	})
	// Sleep(d): the clock is read at least d later from now on
	reg("time.Sleep", func(fr *frame, a []value) value {
		i := fr.i
		if i.lastNow != nil {
			p := i.path
			d := a[0]
			if c, ok := d.(int64); ok {
				if c < 0 {
					d = int64(0)
				}
			} else {
				d = mkIte(p.mkIntCmp(">", d, int64(0)), d, int64(0))
			}
			i.lastNow = p.mkAdd(i.lastNow, d)
		}
		return nil
	})
	reg("time.Unix", func(fr *frame, a []value) value {
		p := fr.i.path
		e, _ := new(big.Int).SetString(unixEpochNs, 10)
		ns := p.mkAdd(p.mkAdd(p.mkMul(a[0], int64(1000000000)), a[1]), &Sym{sort: SInt, e: e.String(), lo: e, hi: e})
		return mkTime(ns)
	})
	reg("time.Parse", func(fr *frame, a []value) value {
		// nondeterministic result: either an error or an arbitrary instant
		i := fr.i
		p := i.path
		if layout, ok := a[0].(string); ok {
			if c, ok := a[1].(string); ok {
				t, err := time.Parse(layout, c)
				if err != nil {
					return tuple{mkTime(int64(0)), i.newError(err.Error())}
				}
				ns := new(big.Int).Mul(big.NewInt(t.Unix()), big.NewInt(1000000000))
				ns.Add(ns, big.NewInt(int64(t.Nanosecond())))
				e, _ := new(big.Int).SetString(unixEpochNs, 10)
				ns.Add(ns, e)
				return tuple{mkTime(&Sym{sort: SInt, e: ns.String(), lo: ns, hi: ns}), nilErr()}
			}
		}
		okv := p.input("time.parse.ok", SBool)
		if i.branch(okv) {
			t := p.input("time.parse.ns", SInt)
			p.pc = append(p.pc, "(<= 0 "+t.e+")", "(<= "+t.e+" 200000000000000000000)")
			return tuple{mkTime(t), nilErr()}
		}
		return tuple{mkTime(int64(0)), i.newError("parsing time: cannot parse")}
	})
	reg("(time.Duration).String", func(fr *frame, a []value) value {
		fr.i.ex.noteApprox("time.Duration.String is opaque")
		return fr.i.nondetInternalString("dur")
	})
	reg("(time.Duration).Seconds", func(fr *frame, a []value) value {
		if c, ok := a[0].(int64); ok {
			return float64(c) / 1e9
		}
		fr.i.ex.noteApprox("time.Duration.Seconds on a symbolic duration is 0.0 (floats are not modelled; used for trace output)")
		return float64(0)
	})
}
