package sx

// []byte as (array object, off, len, cap): the array content is one String
// term that is replaced functionally on writes.

import "fmt"

func (i *interpreter) byteStore(arr *byteArr, idx value, v value) {
	p := i.path
	total := p.mkLen(arr.content)
	pre := p.mkSubstr(arr.content, int64(0), idx)
	post := p.mkSubstr(arr.content, p.mkAdd(idx, int64(1)), p.mkSub(total, p.mkAdd(idx, int64(1))))
	arr.content = i.compact(mkConcat(mkConcat(pre, mkFromCode(v)), post))
}

// compact gives long terms a name so that they are not duplicated textually.
func (i *interpreter) compact(v value) value {
	s, ok := v.(*Sym)
	if !ok || len(s.e) < 160 {
		return v
	}
	if s.sort == SInt && len(s.e) < 1200 {
		return v // keep integer terms textual: syntactic length reasoning compares them
	}
	p := i.path
	n := p.freshVar("t", s.sort)
	p.pc = append(p.pc, "(= "+n.e+" "+s.e+")")
	n.lo, n.hi = s.lo, s.hi
	if s.sort == SInt {
		n.op = "" // interval travels with the Sym itself
	}
	if s.op == "concat" {
		n.op, n.a = "concat", s.a // keep the segment structure for syntactic reasoning
	}
	return n
}

// bytesOf returns the visible content of a byte slice as a string value.
func (i *interpreter) bytesOf(b *byteSlice) value {
	if b == nil {
		return ""
	}
	return i.path.mkSubstr(b.arr.content, b.off, b.len)
}

// newBytes makes a fresh byte slice holding s.
func (i *interpreter) newBytes(s value) *byteSlice {
	n := i.path.mkLen(s)
	return &byteSlice{arr: &byteArr{content: s}, off: int64(0), len: n, cap: n}
}

// byteCopy implements copy(dst, src) for byte slices and strings.
func (i *interpreter) byteCopy(dst *byteSlice, src value) value {
	p := i.path
	var s value
	switch src := src.(type) {
	case *byteSlice:
		s = i.bytesOf(src)
	case string, *Sym:
		s = src
	default:
		panic(fmt.Sprintf("byteCopy from %T", src))
	}
	if dst == nil {
		return int64(0)
	}
	n := p.mkMin(dst.len, p.mkLen(s))
	if nc, ok := n.(int64); ok && nc == 0 {
		return int64(0)
	}
	n = i.compact(n)
	total := p.mkLen(dst.arr.content)
	pre := p.mkSubstr(dst.arr.content, int64(0), dst.off)
	mid := p.mkSubstr(s, int64(0), n)
	end := p.mkAdd(dst.off, n)
	post := p.mkSubstr(dst.arr.content, end, p.mkSub(total, end))
	dst.arr.content = i.compact(mkConcat(mkConcat(pre, mid), post))
	return n
}

// byteAppend implements append([]byte, ...). When the result does not
// provably fit the capacity a new array is allocated (as Go does); when it
// may or may not fit, the engine forks.
func (i *interpreter) byteAppend(dst *byteSlice, src value) value {
	p := i.path
	var s value
	switch src := src.(type) {
	case *byteSlice:
		s = i.bytesOf(src)
	case string, *Sym:
		s = src
	default:
		panic(fmt.Sprintf("byteAppend from %T", src))
	}
	if dst == nil {
		if sl, ok := p.mkLen(s).(int64); ok && sl == 0 {
			if _, isStr := src.(*byteSlice); isStr && src.(*byteSlice) == nil {
				return (*byteSlice)(nil)
			}
		}
		return i.newBytes(s)
	}
	add := p.mkLen(s)
	newLen := p.mkAdd(dst.len, add)
	fits := p.mkIntCmp("<=", newLen, dst.cap)
	if fc, ok := fits.(bool); ok && !fc || !ok && !i.branch(fits) {
		// reallocate: content = old visible bytes ++ s, cap = len (Go may give
		// more capacity; code relying on the exact growth policy is outside the model)
		content := i.compact(mkConcat(i.bytesOf(dst), s))
		return &byteSlice{arr: &byteArr{content: content}, off: int64(0), len: newLen, cap: newLen}
	}
	// in place
	total := p.mkLen(dst.arr.content)
	start := p.mkAdd(dst.off, dst.len)
	pre := p.mkSubstr(dst.arr.content, int64(0), start)
	end := p.mkAdd(start, add)
	post := p.mkSubstr(dst.arr.content, end, p.mkSub(total, end))
	dst.arr.content = i.compact(mkConcat(mkConcat(pre, s), post))
	return &byteSlice{arr: dst.arr, off: dst.off, len: newLen, cap: dst.cap}
}
