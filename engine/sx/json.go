package sx

// encoding/json model. Marshal walks the engine value along its go/types type
// (struct tags, omitempty, pointers, slices, string-keyed maps, time.Time) and
// produces both the JSON text (an SMT String term) and a document tree that is
// remembered for that text. Unmarshal / Decoder.Decode look the tree up again
// and assign it to the target along the target's type (by JSON member names,
// as encoding/json does), so a body marshalled by one side and decoded by the
// other never has to be parsed symbolically. Concrete texts are parsed with
// the real encoding/json. The harness-side oracles verifJSONValid (JSON-schema
// draft-04 subset, schema read from the repository's docs) and verifJSONGet*
// work on the same tree.

import (
	"encoding/json"
	"fmt"
	"go/types"
	"os"
	"path/filepath"
	"reflect"
	"sort"
	"strconv"
	"strings"
	"time"
)

type jnode struct {
	kind byte // 'o' object, 'a' array, 's' string, 'n' integer, 'b' bool, 'z' null
	keys []string
	vals []*jnode // object members (same order as keys) or array items
	v    value    // 's': string value, 'n': int64|*Sym, 'b': bool|*Sym
	tns  value    // 's' holding a time.Time: its nanoseconds
}

type jdoc struct {
	text value
	root *jnode
}

func repoRoot() string {
	if v := os.Getenv("VERIF_REPO"); v != "" {
		return v
	}
	return "/repo"
}

func isNamed(t types.Type, pkg, name string) bool {
	n, ok := types.Unalias(t).(*types.Named)
	return ok && n.Obj().Pkg() != nil && n.Obj().Pkg().Path() == pkg && n.Obj().Name() == name
}

type jfield struct {
	idx       int
	name      string
	omitempty bool
	typ       types.Type
}

func jsonFields(st *types.Struct) []jfield {
	var r []jfield
	for k := 0; k < st.NumFields(); k++ {
		f := st.Field(k)
		if f.Embedded() {
			unsup("encoding/json: embedded field %s", f.Name())
		}
		if !f.Exported() {
			continue
		}
		tag := reflect.StructTag(st.Tag(k)).Get("json")
		if tag == "-" {
			continue
		}
		name, opts, _ := strings.Cut(tag, ",")
		if name == "" {
			name = f.Name()
		}
		jf := jfield{idx: k, name: name, typ: f.Type()}
		for _, o := range strings.Split(opts, ",") {
			switch o {
			case "omitempty":
				jf.omitempty = true
			case "":
			default:
				unsup("encoding/json: tag option %q", o)
			}
		}
		r = append(r, jf)
	}
	return r
}

func (i *interpreter) hasMethod(t types.Type, name string) bool {
	for _, tt := range []types.Type{t, types.NewPointer(t)} {
		ms := i.prog.MethodSets.MethodSet(tt)
		for k := 0; k < ms.Len(); k++ {
			if ms.At(k).Obj().Name() == name {
				return true
			}
		}
	}
	return false
}

// jsonEmpty: the omitempty test, forking on symbolic values.
func (i *interpreter) jsonEmpty(t types.Type, v value) bool {
	switch u := types.Unalias(t).Underlying().(type) {
	case *types.Basic:
		switch {
		case u.Info()&types.IsString != 0:
			if c, ok := v.(string); ok {
				return c == ""
			}
			return i.branch(mkStrEq(v, ""))
		case u.Info()&types.IsBoolean != 0:
			if c, ok := v.(bool); ok {
				return !c
			}
			return !i.branch(v)
		case u.Info()&types.IsInteger != 0:
			if c, ok := v.(int64); ok {
				return c == 0
			}
			return i.branch(i.path.mkIntCmp("=", v, int64(0)))
		}
	case *types.Pointer:
		pv, _ := v.(*value)
		return pv == nil
	case *types.Interface:
		return v.(iface).t == nil
	case *types.Slice:
		if b, ok := v.(*byteSlice); ok {
			if b == nil {
				return true
			}
			unsup("encoding/json: []byte member")
		}
		return len(v.([]value)) == 0
	case *types.Map:
		m, _ := v.(*omap)
		return m == nil || m.length() == 0
	case *types.Array:
		return u.Len() == 0
	}
	return false
}

func fr0(i *interpreter) *frame { return &frame{i: i} }

func (i *interpreter) jsonTree(t types.Type, v value) *jnode {
	if isNamed(t, "time", "Time") {
		ns := timeNs(v)
		if c, ok := ns.(int64); ok && c == 0 {
			return &jnode{kind: 's', v: "0001-01-01T00:00:00Z", tns: ns}
		}
		p := i.path
		if !p.declSet["TimeText"] {
			p.declSet["TimeText"] = true
			p.decls = append(p.decls, "(declare-fun TimeText (Int) String)")
		}
		return &jnode{kind: 's', v: &Sym{sort: SStr, e: "(TimeText " + tInt(ns) + ")"}, tns: ns}
	}
	if _, isIface := types.Unalias(t).Underlying().(*types.Interface); !isIface {
		// a custom marshaller is run (interpreted); its output must itself come
		// from json.Marshal (or be concrete) so that its document tree is known
		ms := i.prog.MethodSets.MethodSet(t)
		for k := 0; k < ms.Len(); k++ {
			if sel := ms.At(k); sel.Obj().Name() == "MarshalJSON" {
				if pv, isPtr := v.(*value); isPtr && pv == nil {
					break // nil pointer: encoded as null below
				}
				res := call(i, fr0(i), 0, i.prog.MethodValue(sel), []value{v}).(tuple)
				if e := res[1].(iface); e.t != nil {
					unsup("encoding/json: MarshalJSON returned an error")
				}
				root, ok := i.jsonDocOf(i.strArg(res[0]))
				if !ok {
					unsup("encoding/json: MarshalJSON returned invalid JSON")
				}
				return root
			}
		}
		if _, isPtr := types.Unalias(t).Underlying().(*types.Pointer); !isPtr && i.hasMethod(t, "MarshalJSON") {
			unsup("encoding/json: MarshalJSON with pointer receiver on a non-addressable %s", t)
		}
	}
	switch u := types.Unalias(t).Underlying().(type) {
	case *types.Basic:
		switch {
		case u.Info()&types.IsString != 0:
			return &jnode{kind: 's', v: v}
		case u.Info()&types.IsBoolean != 0:
			return &jnode{kind: 'b', v: v}
		case u.Info()&types.IsInteger != 0:
			return &jnode{kind: 'n', v: v}
		}
		unsup("encoding/json: basic type %s", u)
	case *types.Pointer:
		pv, _ := v.(*value)
		if pv == nil {
			return &jnode{kind: 'z'}
		}
		return i.jsonTree(u.Elem(), load(u.Elem(), pv))
	case *types.Interface:
		itf := v.(iface)
		if itf.t == nil {
			return &jnode{kind: 'z'}
		}
		return i.jsonTree(itf.t, itf.v)
	case *types.Struct:
		s := v.(structure)
		n := &jnode{kind: 'o'}
		for _, f := range jsonFields(u) {
			if f.omitempty && i.jsonEmpty(f.typ, s[f.idx]) {
				continue
			}
			n.keys = append(n.keys, f.name)
			n.vals = append(n.vals, i.jsonTree(f.typ, s[f.idx]))
		}
		return n
	case *types.Slice:
		if b, ok := v.(*byteSlice); ok {
			if b == nil {
				return &jnode{kind: 'z'}
			}
			unsup("encoding/json: []byte value")
		}
		items := v.([]value)
		if items == nil {
			return &jnode{kind: 'z'}
		}
		n := &jnode{kind: 'a', vals: []*jnode{}}
		for _, it := range items {
			n.vals = append(n.vals, i.jsonTree(u.Elem(), it))
		}
		return n
	case *types.Array:
		n := &jnode{kind: 'a', vals: []*jnode{}}
		for _, it := range v.(array) {
			n.vals = append(n.vals, i.jsonTree(u.Elem(), it))
		}
		return n
	case *types.Map:
		m, _ := v.(*omap)
		if m == nil {
			return &jnode{kind: 'z'}
		}
		if b, ok := u.Key().Underlying().(*types.Basic); !ok || b.Info()&types.IsString == 0 {
			unsup("encoding/json: map key type %s", u.Key())
		}
		n := &jnode{kind: 'o'}
		ents := m.live()
		symbolic := 0
		for _, e := range ents {
			if _, ok := e.key.(string); !ok {
				symbolic++
			}
		}
		if symbolic > 0 && len(ents) > 1 {
			unsup("encoding/json: map with symbolic keys (sorted member order unknown)")
		}
		sort.SliceStable(ents, func(a, b int) bool {
			ka, _ := ents[a].key.(string)
			kb, _ := ents[b].key.(string)
			return ka < kb
		})
		for _, e := range ents {
			if ks, ok := e.key.(string); ok {
				n.keys = append(n.keys, ks)
			} else {
				n.keys = append(n.keys, "\x00sym:"+tStr(e.key))
			}
			n.vals = append(n.vals, i.jsonTree(u.Elem(), e.val))
		}
		return n
	}
	unsup("encoding/json: type %s", t)
	return nil
}

// jsonSafeAlphabet: bytes that encoding/json writes unescaped.
func jsonSafeByte(b int) bool {
	return b >= 0x20 && b < 0x7f && b != '"' && b != '\\' && b != '<' && b != '>' && b != '&'
}

func (i *interpreter) jsonQuote(s value) value {
	if c, ok := s.(string); ok {
		by, _ := json.Marshal(c)
		return string(by)
	}
	p := i.path
	sym := s.(*Sym)
	if a, ok := p.alpha[sym.e]; ok {
		safe := true
		for b := 0; b < 256; b++ {
			if a[b] && !jsonSafeByte(b) {
				safe = false
			}
		}
		if safe {
			return mkConcat(mkConcat("\"", s), "\"")
		}
	}
	if !p.declSet["JsonEsc"] {
		p.declSet["JsonEsc"] = true
		p.decls = append(p.decls, "(declare-fun JsonEsc (String) String)")
	}
	i.ex.noteApprox("encoding/json: escaping of a symbolic string kept uninterpreted (JsonEsc)")
	return mkConcat(mkConcat("\"", &Sym{sort: SStr, e: "(JsonEsc " + sym.e + ")"}), "\"")
}

func (i *interpreter) jsonText(n *jnode) value {
	switch n.kind {
	case 'z':
		return "null"
	case 's':
		return i.jsonQuote(n.v)
	case 'n':
		return i.itoa(n.v)
	case 'b':
		if c, ok := n.v.(bool); ok {
			if c {
				return "true"
			}
			return "false"
		}
		return &Sym{sort: SStr, e: "(ite " + tBool(n.v) + " \"true\" \"false\")"}
	case 'a':
		var out value = "["
		for k, it := range n.vals {
			if k > 0 {
				out = mkConcat(out, ",")
			}
			out = mkConcat(out, i.jsonText(it))
		}
		return mkConcat(out, "]")
	case 'o':
		var out value = "{"
		for k, key := range n.keys {
			if k > 0 {
				out = mkConcat(out, ",")
			}
			if strings.HasPrefix(key, "\x00sym:") {
				out = mkConcat(out, i.jsonQuote(&Sym{sort: SStr, e: key[5:]}))
			} else {
				out = mkConcat(out, i.jsonQuote(key))
			}
			out = mkConcat(out, ":")
			out = mkConcat(out, i.jsonText(n.vals[k]))
		}
		return mkConcat(out, "}")
	}
	panic("jsonText: bad node")
}

func (i *interpreter) jsonMarshal(t types.Type, v value) value {
	root := i.jsonTree(t, v)
	text := i.jsonText(root)
	i.jsonDocs = append(i.jsonDocs, &jdoc{text: text, root: root})
	return text
}

func jsonFromGo(x interface{}) *jnode {
	switch x := x.(type) {
	case nil:
		return &jnode{kind: 'z'}
	case string:
		return &jnode{kind: 's', v: x}
	case bool:
		return &jnode{kind: 'b', v: x}
	case json.Number:
		n, err := strconv.ParseInt(string(x), 10, 64)
		if err != nil {
			unsup("encoding/json: non-integer number %s", x)
		}
		return &jnode{kind: 'n', v: n}
	case []interface{}:
		n := &jnode{kind: 'a', vals: []*jnode{}}
		for _, it := range x {
			n.vals = append(n.vals, jsonFromGo(it))
		}
		return n
	case map[string]interface{}:
		n := &jnode{kind: 'o'}
		var keys []string
		for k := range x {
			keys = append(keys, k)
		}
		sort.Strings(keys)
		for _, k := range keys {
			n.keys = append(n.keys, k)
			n.vals = append(n.vals, jsonFromGo(x[k]))
		}
		return n
	}
	panic(fmt.Sprintf("jsonFromGo %T", x))
}

// jsonDocOf finds the document tree of a JSON text: remembered from Marshal,
// or parsed when the text is concrete. ok=false: text is not valid JSON.
func (i *interpreter) jsonDocOf(text value) (root *jnode, ok bool) {
	if c, isC := text.(string); isC {
		dec := json.NewDecoder(strings.NewReader(c))
		dec.UseNumber()
		var x interface{}
		if err := dec.Decode(&x); err != nil {
			return nil, false
		}
		return jsonFromGo(x), true
	}
	for k := len(i.jsonDocs) - 1; k >= 0; k-- {
		if tStr(i.jsonDocs[k].text) == tStr(text) {
			return i.jsonDocs[k].root, true
		}
	}
	for k := len(i.jsonDocs) - 1; k >= 0; k-- {
		if i.path.validCond(mkStrEq(i.jsonDocs[k].text, text)) {
			return i.jsonDocs[k].root, true
		}
	}
	unsup("encoding/json: decoding symbolic text that was not produced by json.Marshal in this run")
	return nil, false
}

// jsonAssign stores the node into *addr of type t the way encoding/json does;
// returns an error message ("" = ok).
func (i *interpreter) jsonAssign(n *jnode, t types.Type, addr *value) string {
	if n.kind == 'z' {
		switch types.Unalias(t).Underlying().(type) {
		case *types.Pointer, *types.Map, *types.Slice, *types.Interface:
			store(t, addr, zero(t))
		}
		return "" // null leaves other kinds unchanged
	}
	if isNamed(t, "time", "Time") {
		if n.kind != 's' {
			return "json: cannot unmarshal into Go value of type time.Time"
		}
		if n.tns != nil {
			store(t, addr, mkTime(n.tns))
			return ""
		}
		if c, ok := n.v.(string); ok {
			tm, err := time.Parse(time.RFC3339, c)
			if err != nil {
				return "parsing time " + c
			}
			unix := tm.UnixNano()
			ns := i.path.mkAdd(unix, &Sym{sort: SInt, e: unixEpochNs})
			store(t, addr, mkTime(ns))
			return ""
		}
		unsup("encoding/json: symbolic time text")
	}
	typeErr := func(what string) string {
		return "json: cannot unmarshal " + what + " into Go value of type " + t.String()
	}
	switch u := types.Unalias(t).Underlying().(type) {
	case *types.Basic:
		switch {
		case u.Info()&types.IsString != 0:
			if n.kind != 's' {
				return typeErr("non-string")
			}
			store(t, addr, n.v)
			return ""
		case u.Info()&types.IsBoolean != 0:
			if n.kind != 'b' {
				return typeErr("non-bool")
			}
			store(t, addr, n.v)
			return ""
		case u.Info()&types.IsInteger != 0:
			if n.kind != 'n' {
				return typeErr("non-number")
			}
			store(t, addr, n.v)
			return ""
		}
		unsup("encoding/json: decode into %s", t)
	case *types.Pointer:
		cell := zero(u.Elem())
		if old, _ := load(t, addr).(*value); old != nil {
			cell = *old
		}
		pc := &cell
		if msg := i.jsonAssign(n, u.Elem(), pc); msg != "" {
			return msg
		}
		store(t, addr, pc)
		return ""
	case *types.Struct:
		if n.kind != 'o' {
			return typeErr("non-object")
		}
		s := load(t, addr).(structure)
		fields := jsonFields(u)
		firstErr := ""
		for k, key := range n.keys {
			var hit *jfield
			for fi := range fields {
				if fields[fi].name == key {
					hit = &fields[fi]
					break
				}
			}
			if hit == nil {
				for fi := range fields {
					if strings.EqualFold(fields[fi].name, key) {
						hit = &fields[fi]
						break
					}
				}
			}
			if hit == nil {
				continue
			}
			fv := s[hit.idx]
			if msg := i.jsonAssign(n.vals[k], hit.typ, &fv); msg != "" {
				// a value of the wrong JSON type: encoding/json skips the
				// member, goes on and reports the first such error at the end
				if !strings.HasPrefix(msg, "json: cannot unmarshal") {
					return msg
				}
				if firstErr == "" {
					firstErr = msg
					if !strings.Contains(msg, "\x00field:") {
						firstErr = msg + "\x00field:" + hit.name
					}
				}
				continue
			}
			s[hit.idx] = fv
		}
		store(t, addr, s)
		return firstErr
	case *types.Slice:
		if n.kind != 'a' {
			return typeErr("non-array")
		}
		if isByteSliceType(t) {
			unsup("encoding/json: decode into []byte")
		}
		items := make([]value, len(n.vals))
		for k, it := range n.vals {
			items[k] = zero(u.Elem())
			if msg := i.jsonAssign(it, u.Elem(), &items[k]); msg != "" {
				return msg
			}
		}
		store(t, addr, items)
		return ""
	case *types.Map:
		if n.kind != 'o' {
			return typeErr("non-object")
		}
		m, _ := load(t, addr).(*omap)
		if m == nil {
			m = newOmap(u.Key())
		}
		for k, key := range n.keys {
			var kv value = key
			if strings.HasPrefix(key, "\x00sym:") {
				kv = &Sym{sort: SStr, e: key[5:]}
			}
			ev := zero(u.Elem())
			if msg := i.jsonAssign(n.vals[k], u.Elem(), &ev); msg != "" {
				return msg
			}
			m.insert(i, kv, ev)
		}
		store(t, addr, m)
		return ""
	case *types.Interface:
		unsup("encoding/json: decode into interface value")
	}
	unsup("encoding/json: decode into %s", t)
	return ""
}

func (i *interpreter) jsonUnmarshal(text value, target value) value {
	itf, ok := target.(iface)
	if !ok || itf.t == nil {
		return i.newError("json: Unmarshal(nil)")
	}
	pt, ok := types.Unalias(itf.t).Underlying().(*types.Pointer)
	pv, _ := itf.v.(*value)
	if !ok || pv == nil {
		return i.newError("json: Unmarshal(non-pointer)")
	}
	root, valid := i.jsonDocOf(text)
	if !valid {
		return i.newError("invalid character in JSON input")
	}
	if msg := i.jsonAssign(root, pt.Elem(), pv); msg != "" {
		if strings.HasPrefix(msg, "json: cannot unmarshal") {
			// a *json.UnmarshalTypeError, as the real decoder returns
			field := ""
			if k := strings.Index(msg, "\x00field:"); k >= 0 {
				field = msg[k+7:]
				msg = msg[:k]
			}
			if et := i.namedTypeOrNil("encoding/json", "UnmarshalTypeError"); et != nil {
				es := zero(et).(structure)
				es[i.fieldIndex(et, "Value")] = strings.TrimSuffix(strings.TrimPrefix(msg, "json: cannot unmarshal "), " into Go value")
				es[i.fieldIndex(et, "Field")] = field
				cell := value(es)
				return iface{t: types.NewPointer(et), v: &cell}
			}
		}
		return i.newError(msg)
	}
	return nilErr()
}

// ---------------------------------------------------------------- schema

type jschema = map[string]interface{}

func loadSchema(rel string) jschema {
	data, err := os.ReadFile(filepath.Join(repoRoot(), rel))
	if err != nil {
		unsup("schema %s: %v", rel, err)
	}
	var s jschema
	if err := json.Unmarshal(data, &s); err != nil {
		unsup("schema %s: %v", rel, err)
	}
	return s
}

func jsonTypeIs(n *jnode, tn string) bool {
	switch tn {
	case "object":
		return n.kind == 'o'
	case "array":
		return n.kind == 'a'
	case "string":
		return n.kind == 's'
	case "number", "integer":
		return n.kind == 'n'
	case "boolean":
		return n.kind == 'b'
	case "null":
		return n.kind == 'z'
	}
	unsup("schema type %q", tn)
	return false
}

// schemaValid: JSON-schema draft-04 subset (type, properties, required,
// additionalProperties, items, minimum, maximum, enum, $ref to #/definitions).
func (i *interpreter) schemaValid(n *jnode, s jschema, root jschema) value {
	var ok value = true
	for kw, arg := range s {
		switch kw {
		case "$schema", "title", "description", "definitions", "id":
		case "$ref":
			ref := arg.(string)
			if !strings.HasPrefix(ref, "#/definitions/") {
				unsup("schema $ref %q", ref)
			}
			defs, _ := root["definitions"].(map[string]interface{})
			sub, found := defs[strings.TrimPrefix(ref, "#/definitions/")].(map[string]interface{})
			if !found {
				unsup("schema $ref %q not found", ref)
			}
			ok = mkAnd(ok, i.schemaValid(n, sub, root))
		case "type":
			switch a := arg.(type) {
			case string:
				if !jsonTypeIs(n, a) {
					return false
				}
			case []interface{}:
				hit := false
				for _, x := range a {
					if jsonTypeIs(n, x.(string)) {
						hit = true
					}
				}
				if !hit {
					return false
				}
			}
		case "properties":
			if n.kind != 'o' {
				continue
			}
			for name, sub := range arg.(map[string]interface{}) {
				for k, key := range n.keys {
					if strings.HasPrefix(key, "\x00sym:") {
						unsup("schema: object with symbolic member name")
					}
					if key == name {
						ok = mkAnd(ok, i.schemaValid(n.vals[k], sub.(map[string]interface{}), root))
					}
				}
			}
		case "required":
			if n.kind != 'o' {
				continue
			}
			for _, r := range arg.([]interface{}) {
				found := false
				for _, key := range n.keys {
					if key == r.(string) {
						found = true
					}
				}
				if !found {
					return false
				}
			}
		case "additionalProperties":
			if n.kind != 'o' {
				continue
			}
			allow, isBool := arg.(bool)
			if !isBool {
				unsup("schema: additionalProperties as schema")
			}
			if !allow {
				props, _ := s["properties"].(map[string]interface{})
				for _, key := range n.keys {
					if _, known := props[key]; !known {
						return false
					}
				}
			}
		case "items":
			if n.kind != 'a' {
				continue
			}
			sub, isObj := arg.(map[string]interface{})
			if !isObj {
				unsup("schema: tuple items")
			}
			for _, it := range n.vals {
				ok = mkAnd(ok, i.schemaValid(it, sub, root))
			}
		case "minimum", "maximum":
			if n.kind != 'n' {
				continue
			}
			f, isNum := arg.(float64)
			if !isNum || f != float64(int64(f)) {
				unsup("schema: non-integer bound")
			}
			op := ">="
			if kw == "maximum" {
				op = "<="
			}
			ok = mkAnd(ok, i.path.mkIntCmp(op, n.v, int64(f)))
		case "enum":
			var any value = false
			for _, x := range arg.([]interface{}) {
				xs, isStr := x.(string)
				if !isStr {
					unsup("schema: non-string enum")
				}
				if n.kind == 's' {
					any = mkOr(any, mkStrEq(n.v, xs))
				}
			}
			ok = mkAnd(ok, any)
		default:
			unsup("schema keyword %q", kw)
		}
	}
	return ok
}

// jsonPath follows a dotted path (object member names, array indices).
func jsonPath(n *jnode, path string) *jnode {
	if path == "" {
		return n
	}
	for _, part := range strings.Split(path, ".") {
		if n == nil {
			return nil
		}
		switch n.kind {
		case 'o':
			var next *jnode
			for k, key := range n.keys {
				if key == part {
					next = n.vals[k]
				}
			}
			n = next
		case 'a':
			idx, err := strconv.Atoi(part)
			if err != nil || idx < 0 || idx >= len(n.vals) {
				return nil
			}
			n = n.vals[idx]
		default:
			return nil
		}
	}
	return n
}

func init() {
	reg := func(name string, h intrinsic) { intrinsics[name] = h }
	reg("encoding/json.Marshal", func(fr *frame, a []value) value {
		itf := a[0].(iface)
		if itf.t == nil {
			return tuple{fr.i.newBytes("null"), nilErr()}
		}
		return tuple{fr.i.newBytes(fr.i.jsonMarshal(itf.t, itf.v)), nilErr()}
	})
	reg("encoding/json.Unmarshal", func(fr *frame, a []value) value {
		return fr.i.jsonUnmarshal(fr.i.strArg(a[0]), a[1])
	})
	reg("encoding/json.NewDecoder", func(fr *frame, a []value) value {
		cell := value(&nativeObj{kind: "json.Decoder", v: a[0]})
		return &cell
	})
	decReader := func(v value) iface { return (*(v.(*value))).(*nativeObj).v.(iface) }
	reg("(*encoding/json.Decoder).Decode", func(fr *frame, a []value) value {
		i := fr.i
		r := decReader(a[0])
		var text value
		if content, ok := i.readerContent(r, true); ok {
			text = content
		} else {
			data, err := i.readAll(fr, r)
			if e := err.(iface); e.t != nil {
				return err
			}
			text = data
		}
		if c, ok := text.(string); ok && strings.TrimSpace(c) == "" {
			return i.globalValue("io", "EOF")
		}
		return i.jsonUnmarshal(text, a[1])
	})
	reg("(*encoding/json.Decoder).UseNumber", func(fr *frame, a []value) value { return nil })
	reg("(*encoding/json.Decoder).DisallowUnknownFields", func(fr *frame, a []value) value { return nil })

	verifAPI["verifJSONValid"] = func(fr *frame, args []value) value {
		i := fr.i
		root, ok := i.jsonDocOf(i.strArg(args[0]))
		if !ok {
			return false
		}
		s := loadSchema(cstr(args[1], "schema path"))
		return i.schemaValid(root, s, s)
	}
	verifAPI["verifJSONKind"] = func(fr *frame, args []value) value {
		i := fr.i
		root, ok := i.jsonDocOf(i.strArg(args[0]))
		if !ok {
			return "invalid"
		}
		n := jsonPath(root, cstr(args[1], "json path"))
		if n == nil {
			return "absent"
		}
		return map[byte]string{'o': "object", 'a': "array", 's': "string", 'n': "number", 'b': "boolean", 'z': "null"}[n.kind]
	}
	verifAPI["verifJSONString"] = func(fr *frame, args []value) value {
		i := fr.i
		root, ok := i.jsonDocOf(i.strArg(args[0]))
		if !ok {
			return ""
		}
		n := jsonPath(root, cstr(args[1], "json path"))
		if n == nil || n.kind != 's' {
			return ""
		}
		return n.v
	}
	verifAPI["verifJSONInt"] = func(fr *frame, args []value) value {
		i := fr.i
		root, ok := i.jsonDocOf(i.strArg(args[0]))
		if !ok {
			return int64(0)
		}
		n := jsonPath(root, cstr(args[1], "json path"))
		if n == nil || n.kind != 'n' {
			return int64(0)
		}
		return n.v
	}
	verifAPI["verifJSONBool"] = func(fr *frame, args []value) value {
		i := fr.i
		root, ok := i.jsonDocOf(i.strArg(args[0]))
		if !ok {
			return false
		}
		n := jsonPath(root, cstr(args[1], "json path"))
		if n == nil || n.kind != 'b' {
			return false
		}
		return n.v
	}
	verifAPI["verifJSONLen"] = func(fr *frame, args []value) value {
		i := fr.i
		root, ok := i.jsonDocOf(i.strArg(args[0]))
		if !ok {
			return int64(-1)
		}
		n := jsonPath(root, cstr(args[1], "json path"))
		if n == nil || (n.kind != 'a' && n.kind != 'o') {
			return int64(-1)
		}
		return int64(len(n.vals))
	}
}

func init() {
	// context.WithValue checks comparability through reflection; build the
	// real valueCtx directly (its Value method is interpreted as usual)
	intrinsics["context.WithValue"] = func(fr *frame, a []value) value {
		t := fr.i.namedType("context", "valueCtx")
		cell := value(structure{a[0], a[1], a[2]})
		return iface{t: types.NewPointer(t), v: &cell}
	}
}

func init() {
	// FICLONE: the modelled file system has no reflink support (the ioctl
	// fails with an error and callers fall back to copying)
	intrinsics["golang.org/x/sys/unix.IoctlFileClone"] = func(fr *frame, a []value) value {
		return fr.i.newError("operation not supported")
	}
}
