package sx

// Intrinsics: the verif* harness API and summaries of standard-library
// functions for symbolic operands.

import (
	"go/types"
	"math/big"
	"strings"
	"sync"

	"golang.org/x/tools/go/ssa"
)

type intrinsic func(fr *frame, args []value) value

var (
	intrinsics     = map[string]intrinsic{}
	verifAPI       = map[string]intrinsic{}
	nativeMethods  = map[string]func(fr *frame, args []value) value{}
	intrinsicCache sync.Map
	globalHooks    = map[string]func(i *interpreter) value{}
)

func globalInitHook(g *ssa.Global) func(i *interpreter) value {
	return globalHooks[g.String()]
}

func lookupIntrinsic(name string) intrinsic {
	if h, ok := intrinsics[name]; ok {
		return h
	}
	if k := strings.LastIndex(name, ".verif"); k >= 0 {
		if h, ok := verifAPI[name[k+1:]]; ok {
			return h
		}
	}
	return nil
}

const byteRe = `(re.* (re.range "\u{0}" "\u{ff}"))`

func (i *interpreter) nondetString(name string) *Sym {
	p := i.path
	s := p.input(name, SStr)
	p.classCons = append(p.classCons, classCon{s, byteRe, "bytes"})
	return s
}

func (i *interpreter) nondetInt(name string, t types.Type) *Sym {
	p := i.path
	s := p.input(name, SInt)
	bits, signed := intInfo(t)
	lo, hi := typeRange(bits, signed)
	p.pc = append(p.pc, "(<= "+smtBig(lo)+" "+s.e+")", "(<= "+s.e+" "+smtBig(hi)+")")
	p.varIv[s.e] = ival{lo, hi}
	return s
}

func cstr(v value, what string) string {
	s, ok := v.(string)
	if !ok {
		unsup("%s must be a constant string", what)
	}
	return s
}

func init() {
	verifAPI["verifNondetInt"] = func(fr *frame, args []value) value {
		return fr.i.nondetInt(cstr(args[0], "nondet name"), types.Typ[types.Int])
	}
	verifAPI["verifNondetInt64"] = verifAPI["verifNondetInt"]
	verifAPI["verifNondetByte"] = func(fr *frame, args []value) value {
		return fr.i.nondetInt(cstr(args[0], "nondet name"), types.Typ[types.Uint8])
	}
	verifAPI["verifNondetBool"] = func(fr *frame, args []value) value {
		return fr.i.path.input(cstr(args[0], "nondet name"), SBool)
	}
	verifAPI["verifNondetString"] = func(fr *frame, args []value) value {
		return fr.i.nondetString(cstr(args[0], "nondet name"))
	}
	verifAPI["verifNondetBytes"] = func(fr *frame, args []value) value {
		return fr.i.newBytes(fr.i.nondetString(cstr(args[0], "nondet name")))
	}
	verifAPI["verifAssume"] = func(fr *frame, args []value) value {
		i := fr.i
		switch c := args[0].(type) {
		case bool:
			if !c {
				panic(pathEnd{reason: "assume"})
			}
		case *Sym:
			// keep the path only if the assumption is satisfiable
			if !i.branchAssume(c) {
				panic(pathEnd{reason: "assume"})
			}
		}
		return nil
	}
	verifAPI["verifAssert"] = func(fr *frame, args []value) value {
		i := fr.i
		msg := cstr(args[1], "assert message")
		pos := ""
		if fr.caller != nil {
			pos = i.posOf(fr.caller.curInstr)
		}
		i.checkObligation("assert", msg, args[0], pos)
		// continue under the assertion
		switch c := args[0].(type) {
		case bool:
			if !c {
				panic(pathEnd{reason: "assert-failed"})
			}
		case *Sym:
			if !i.branchAssume(c) {
				panic(pathEnd{reason: "assert-failed"})
			}
		}
		return nil
	}
	verifAPI["verifCover"] = func(fr *frame, args []value) value {
		p := fr.i.path
		p.covers = append(p.covers, cstr(args[0], "cover label"))
		return nil
	}
	verifAPI["verifObserve"] = func(fr *frame, args []value) value {
		p := fr.i.path
		v := args[1]
		if itf, ok := v.(iface); ok {
			v = itf.v
		}
		if bs, ok := v.(*byteSlice); ok {
			v = fr.i.bytesOf(bs)
		}
		p.observes = append(p.observes, observation{cstr(args[0], "observe label"), v})
		return nil
	}
	verifAPI["verifBound"] = func(fr *frame, args []value) value {
		name := cstr(args[0], "bound name")
		q := args[1].(int64)
		t := args[2].(int64)
		v := q
		if fr.i.ex.Tier == "thorough" {
			v = t
		}
		if ov, ok := fr.i.ex.Bounds[name]; ok {
			v = ov
		}
		fr.i.path.bounds[name] = v
		return v
	}
	verifAPI["verifChoose"] = func(fr *frame, args []value) value {
		// a nondet int in [0,n) that is concretised by forking; the choice is
		// also an input so that replay can follow it
		i := fr.i
		name := cstr(args[0], "choose name")
		n := int(args[1].(int64))
		s := i.nondetInt(name, types.Typ[types.Int])
		k := i.choose(n)
		i.path.assume(i.path.mkIntCmp("=", s, int64(k)))
		return int64(k)
	}
	verifAPI["verifKnown"] = func(fr *frame, args []value) value {
		id := cstr(args[0], "known-finding id")
		if fr.i.ex.Known[id] {
			fr.i.path.addRegion(id, args[1])
		}
		return nil
	}
	verifAPI["verifSymbolic"] = func(fr *frame, args []value) value { return true }
	// schedule policy for the coroutine scheduler: 0 FIFO, 1 LIFO, 2 a spawned
	// goroutine runs first
	verifAPI["verifSchedPolicy"] = func(fr *frame, args []value) value {
		fr.i.sched.policy = int(fr.i.concreteInt(args[0], "schedule policy"))
		return nil
	}
	// the next n scheduling decisions with more than one runnable goroutine
	// fork the exploration (one path per candidate)
	verifAPI["verifSchedChoose"] = func(fr *frame, args []value) value {
		fr.i.sched.choose = int(fr.i.concreteInt(args[0], "schedule choice budget"))
		return nil
	}
	verifAPI["verifGosched"] = func(fr *frame, args []value) value { fr.i.sched.gosched(); return nil }
	verifAPI["verifIdle"] = func(fr *frame, args []value) value { fr.i.sched.idleWait(); return nil }
	// from here on a state in which every goroutine is blocked is a violation
	// (reported like a panic, with the given message)
	verifAPI["verifNoDeadlock"] = func(fr *frame, args []value) value {
		fr.i.deadlockMsg = cstr(args[0], "deadlock message")
		return nil
	}
	// let the other goroutines run until they block or finish
	verifAPI["verifYield"] = func(fr *frame, args []value) value {
		s := fr.i.sched
		me := s.cur
		for {
			next := s.pick(me)
			if next == nil {
				return nil
			}
			was := s.draining
			s.draining = true
			me.ready = func() bool { return false }
			s.transfer(next)
			me.ready = nil
			s.draining = was
		}
	}
	verifAPI["verifOverride"] = func(fr *frame, args []value) value {
		name := cstr(args[0], "override name")
		f := args[1]
		if itf, ok := f.(iface); ok {
			f = itf.v
		}
		fr.i.overrides[name] = f
		return nil
	}
	verifAPI["verifMatches"] = func(fr *frame, args []value) value {
		return fr.i.regexMatch(cstr(args[0], "pattern"), args[1])
	}
	verifAPI["verifHashHex"] = func(fr *frame, args []value) value {
		var s value
		switch a := args[0].(type) {
		case *byteSlice:
			s = fr.i.bytesOf(a)
		default:
			s = a
		}
		return fr.i.hashHex(s)
	}
	verifAPI["verifOr"] = func(fr *frame, args []value) value { return mkOr(args[0], args[1]) }
	verifAPI["verifAnd"] = func(fr *frame, args []value) value { return mkAnd(args[0], args[1]) }
	verifAPI["verifImplies"] = func(fr *frame, args []value) value { return mkImplies(args[0], args[1]) }
	verifAPI["verifNot"] = func(fr *frame, args []value) value { return mkNot(args[0]) }
	verifAPI["verifAssumeClass"] = func(fr *frame, args []value) value {
		i := fr.i
		p := i.path
		class := cstr(args[1], "class")
		switch s := args[0].(type) {
		case string:
			if !stringInClass(s, class) {
				panic(pathEnd{reason: "assume"})
			}
		case *Sym:
			switch class {
			case "asciiws":
				p.classCons = append(p.classCons, classCon{s, "(re.* (re.union (re.range \"\\u{9}\" \"\\u{d}\") (str.to_re \" \")))", "asciiws"})
			case "trimmed":
				first := "(str.to_code (str.at " + s.e + " 0))"
				last := "(str.to_code (str.at " + s.e + " (- (str.len " + s.e + ") 1)))"
				notIn := func(t string, set [][2]int) string {
					var cs []string
					for _, r := range set {
						if r[0] == r[1] {
							cs = append(cs, "(not (= "+t+" "+smtInt(int64(r[0]))+"))")
						} else {
							cs = append(cs, "(not (and (<= "+smtInt(int64(r[0]))+" "+t+") (<= "+t+" "+smtInt(int64(r[1]))+")))")
						}
					}
					return "(and " + strings.Join(cs, " ") + ")"
				}
				p.pc = append(p.pc, "(or (= (str.len "+s.e+") 0) (and "+notIn(first, trimFirstExcl)+" "+notIn(last, trimLastExcl)+"))")
			case "undented":
				p.pc = append(p.pc, "(not (str.contains "+s.e+" \"\\u{a} \"))", "(not (str.contains "+s.e+" \"\\u{a}\\u{9}\"))",
					"(not (str.prefixof \" \" "+s.e+"))", "(not (str.prefixof \"\\u{9}\" "+s.e+"))")
			case "nocrend":
				p.pc = append(p.pc, "(not (str.suffixof \"\\u{d}\" "+s.e+"))")
				p.facts["noend|"+s.e+"|\r"] = true
			default:
				unsup("unknown string class %q", class)
			}
			p.facts["class|"+class+"|"+s.e] = true
		}
		return nil
	}
	verifAPI["verifAssumeAlphabet"] = func(fr *frame, args []value) value {
		// ranges: pairs of bytes, e.g. "09af" = [0-9a-f]
		i := fr.i
		p := i.path
		ranges := cstr(args[1], "alphabet ranges")
		var allowed [256]bool
		var parts []string
		for k := 0; k+1 < len(ranges); k += 2 {
			for b := int(ranges[k]); b <= int(ranges[k+1]); b++ {
				allowed[b] = true
			}
			parts = append(parts, "(re.range "+smtStr(ranges[k:k+1])+" "+smtStr(ranges[k+1:k+2])+")")
		}
		switch s := args[0].(type) {
		case string:
			for k := 0; k < len(s); k++ {
				if !allowed[s[k]] {
					panic(pathEnd{reason: "assume"})
				}
			}
		case *Sym:
			re := parts[0]
			if len(parts) > 1 {
				re = "(re.union " + strings.Join(parts, " ") + ")"
			}
			p.classCons = append(p.classCons, classCon{s, "(re.* " + re + ")", "alpha:" + re})
			p.setAlpha(s.e, &allowed)
		}
		return nil
	}
	verifAPI["verifDecimalValue"] = func(fr *frame, args []value) value {
		// mathematical value of a digit string (no wrap): harness-side oracle
		switch s := args[0].(type) {
		case string:
			v, _ := new(big.Int).SetString(s, 10)
			if v == nil || !v.IsInt64() {
				unsup("verifDecimalValue out of range")
			}
			return v.Int64()
		case *Sym:
			return &Sym{sort: SInt, e: "(str.to_int " + s.e + ")", lo: bi(-1)}
		}
		return int64(0)
	}
	verifAPI["verifNow"] = func(fr *frame, args []value) value { return intrinsics["time.Now"](fr, nil) }
	verifAPI["verifSleep"] = func(fr *frame, args []value) value { return intrinsics["time.Sleep"](fr, args) }
	verifAPI["verifExpectExit"] = func(fr *frame, args []value) value { fr.i.expectExit = true; return nil }
	verifAPI["verifRunWithCrash"] = func(fr *frame, args []value) (res value) {
		// verifRunWithCrash(k, f): run f; the process is killed (SIGKILL: no deferred
		// function runs) right before its k-th storage-mutating operation. Returns
		// whether the crash happened (false: f finished with fewer operations).
		i := fr.i
		k := int(i.concreteInt(args[0], "crash index"))
		st := i.fs()
		if k <= 0 {
			call(i, fr, 0, args[1], nil)
			return false
		}
		st.crashAt = st.ops + k
		defer func() {
			st.crashAt = 0
			if r := recover(); r != nil {
				if pe, ok := r.(pathEnd); ok && pe.reason == "crash" {
					i.crashed = true
					i.path.events = append(i.path.events, "crash "+pe.detail)
					res = true
					return
				}
				panic(r)
			}
		}()
		call(i, fr, 0, args[1], nil)
		return false
	}
	verifAPI["verifEvent"] = func(fr *frame, args []value) value {
		fr.i.path.events = append(fr.i.path.events, cstr(args[0], "event"))
		return nil
	}
}

// branchAssume adds c to the path condition and reports whether the path is
// still feasible (no forking: the negation is simply not explored).
func (i *interpreter) branchAssume(c *Sym) bool {
	p := i.path
	if c.heavy {
		p.lazy = append(p.lazy, c.e)
		return true
	}
	r := i.solveFeas([]string{c.e})
	if r.res == "unsat" {
		return false
	}
	p.assume(c)
	return true
}

// hashHex models hex(sha256(s)) as an uninterpreted function with the
// right shape; nothing about injectivity is assumed.
func (i *interpreter) hashHex(s value) value {
	p := i.path
	if c, ok := s.(string); ok {
		return i.hashHexConcrete(c)
	}
	if !p.declSet["HashHex"] {
		p.declSet["HashHex"] = true
		p.decls = append(p.decls, "(declare-fun HashHex (String) String)")
	}
	p.usesStr = true
	h := &Sym{sort: SStr, e: "(HashHex " + tStr(s) + ")"}
	h.ln = int64(64)
	key := "hashshape:" + h.e
	if !p.declSet[key] {
		p.declSet[key] = true
		// (the digest's alphabet is kept as a syntactic fact only: asserting
		// [0-9a-f]{64} makes every model query with a digest time out)
		p.pc = append(p.pc, "(= (str.len "+h.e+") 64)",
			"(=> (> (str.len "+tStr(s)+") 0) (not (= "+h.e+" \"e3b0c44298fc1c149afbf4c8996fb92427ae41e4649b934ca495991b7852b855\")))")
		i.ex.noteAssumption("SHA-256 is an uninterpreted function; the only collision-freeness assumed is that non-empty content does not hash to the digest of the empty string")
		var hexs [256]bool
		for c := '0'; c <= '9'; c++ {
			hexs[c] = true
		}
		for c := 'a'; c <= 'f'; c++ {
			hexs[c] = true
		}
		p.setAlpha(h.e, &hexs)
	}
	return h
}

// byte sets excluded at the edges of a "trimmed" string: ASCII white space and
// every byte that can start (first) or end (last) the UTF-8 encoding of a
// Unicode White_Space rune.
var (
	trimFirstExcl = [][2]int{{0x09, 0x0d}, {0x20, 0x20}, {0xc2, 0xc2}, {0xe1, 0xe3}}
	trimLastExcl  = [][2]int{{0x09, 0x0d}, {0x20, 0x20}, {0x80, 0x8a}, {0x9f, 0xa0}, {0xa8, 0xa9}, {0xaf, 0xaf}}
)

func inSet(b byte, set [][2]int) bool {
	for _, r := range set {
		if int(b) >= r[0] && int(b) <= r[1] {
			return true
		}
	}
	return false
}

func stringInClass(s, class string) bool {
	switch class {
	case "asciiws":
		for k := 0; k < len(s); k++ {
			if !(s[k] >= 9 && s[k] <= 13 || s[k] == ' ') {
				return false
			}
		}
		return true
	case "trimmed":
		return s == "" || (!inSet(s[0], trimFirstExcl) && !inSet(s[len(s)-1], trimLastExcl))
	case "nocrend":
		return !strings.HasSuffix(s, "\r")
	case "undented":
		return !strings.Contains(s, "\n ") && !strings.Contains(s, "\n\t") && !strings.HasPrefix(s, " ") && !strings.HasPrefix(s, "\t")
	}
	return false
}
