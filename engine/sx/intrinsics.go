package sx

// Intrinsics: the verif* harness API and summaries of standard-library
// functions for symbolic operands.

import (
	"go/types"
	"strings"
	"sync"

	"golang.org/x/tools/go/ssa"
)

type intrinsic func(fr *frame, args []value) value

var (
	intrinsics     = map[string]intrinsic{}
	verifAPI       = map[string]intrinsic{}
	nativeMethods  = map[string]func(fr *frame, args []value) value{}
	intrinsicCache sync.Map
	globalHooks    = map[string]func(i *interpreter) value{}
)

func globalInitHook(g *ssa.Global) func(i *interpreter) value {
	return globalHooks[g.String()]
}

func lookupIntrinsic(name string) intrinsic {
	if h, ok := intrinsics[name]; ok {
		return h
	}
	if k := strings.LastIndex(name, ".verif"); k >= 0 {
		if h, ok := verifAPI[name[k+1:]]; ok {
			return h
		}
	}
	return nil
}

const byteRe = `(re.* (re.range "\u{0}" "\u{ff}"))`

func (i *interpreter) nondetString(name string) *Sym {
	p := i.path
	s := p.input(name, SStr)
	p.pc = append(p.pc, "(str.in_re "+s.e+" "+byteRe+")")
	return s
}

func (i *interpreter) nondetInt(name string, t types.Type) *Sym {
	p := i.path
	s := p.input(name, SInt)
	bits, signed := intInfo(t)
	lo, hi := typeRange(bits, signed)
	p.pc = append(p.pc, "(<= "+smtBig(lo)+" "+s.e+")", "(<= "+s.e+" "+smtBig(hi)+")")
	p.varIv[s.e] = ival{lo, hi}
	return s
}

func cstr(v value, what string) string {
	s, ok := v.(string)
	if !ok {
		unsup("%s must be a constant string", what)
	}
	return s
}

func init() {
	verifAPI["verifNondetInt"] = func(fr *frame, args []value) value {
		return fr.i.nondetInt(cstr(args[0], "nondet name"), types.Typ[types.Int])
	}
	verifAPI["verifNondetInt64"] = verifAPI["verifNondetInt"]
	verifAPI["verifNondetByte"] = func(fr *frame, args []value) value {
		return fr.i.nondetInt(cstr(args[0], "nondet name"), types.Typ[types.Uint8])
	}
	verifAPI["verifNondetBool"] = func(fr *frame, args []value) value {
		return fr.i.path.input(cstr(args[0], "nondet name"), SBool)
	}
	verifAPI["verifNondetString"] = func(fr *frame, args []value) value {
		return fr.i.nondetString(cstr(args[0], "nondet name"))
	}
	verifAPI["verifNondetBytes"] = func(fr *frame, args []value) value {
		return fr.i.newBytes(fr.i.nondetString(cstr(args[0], "nondet name")))
	}
	verifAPI["verifAssume"] = func(fr *frame, args []value) value {
		i := fr.i
		switch c := args[0].(type) {
		case bool:
			if !c {
				panic(pathEnd{reason: "assume"})
			}
		case *Sym:
			// keep the path only if the assumption is satisfiable
			if !i.branchAssume(c) {
				panic(pathEnd{reason: "assume"})
			}
		}
		return nil
	}
	verifAPI["verifAssert"] = func(fr *frame, args []value) value {
		i := fr.i
		msg := cstr(args[1], "assert message")
		pos := ""
		if fr.caller != nil {
			pos = i.posOf(fr.caller.curInstr)
		}
		i.checkObligation("assert", msg, args[0], pos)
		// continue under the assertion
		switch c := args[0].(type) {
		case bool:
			if !c {
				panic(pathEnd{reason: "assert-failed"})
			}
		case *Sym:
			if !i.branchAssume(c) {
				panic(pathEnd{reason: "assert-failed"})
			}
		}
		return nil
	}
	verifAPI["verifCover"] = func(fr *frame, args []value) value {
		p := fr.i.path
		p.covers = append(p.covers, cstr(args[0], "cover label"))
		return nil
	}
	verifAPI["verifObserve"] = func(fr *frame, args []value) value {
		p := fr.i.path
		v := args[1]
		if itf, ok := v.(iface); ok {
			v = itf.v
		}
		if bs, ok := v.(*byteSlice); ok {
			v = fr.i.bytesOf(bs)
		}
		p.observes = append(p.observes, observation{cstr(args[0], "observe label"), v})
		return nil
	}
	verifAPI["verifBound"] = func(fr *frame, args []value) value {
		name := cstr(args[0], "bound name")
		q := args[1].(int64)
		t := args[2].(int64)
		v := q
		if fr.i.ex.Tier == "thorough" {
			v = t
		}
		if ov, ok := fr.i.ex.Bounds[name]; ok {
			v = ov
		}
		fr.i.path.bounds[name] = v
		return v
	}
	verifAPI["verifChoose"] = func(fr *frame, args []value) value {
		// a nondet int in [0,n) that is concretised by forking; the choice is
		// also an input so that replay can follow it
		i := fr.i
		name := cstr(args[0], "choose name")
		n := int(args[1].(int64))
		s := i.nondetInt(name, types.Typ[types.Int])
		k := i.choose(n)
		i.path.assume(i.path.mkIntCmp("=", s, int64(k)))
		return int64(k)
	}
	verifAPI["verifKnown"] = func(fr *frame, args []value) value {
		id := cstr(args[0], "known-finding id")
		if fr.i.ex.Known[id] {
			fr.i.path.addRegion(id, args[1])
		}
		return nil
	}
	verifAPI["verifSymbolic"] = func(fr *frame, args []value) value { return true }
	verifAPI["verifOverride"] = func(fr *frame, args []value) value {
		name := cstr(args[0], "override name")
		f := args[1]
		if itf, ok := f.(iface); ok {
			f = itf.v
		}
		fr.i.overrides[name] = f
		return nil
	}
	verifAPI["verifMatches"] = func(fr *frame, args []value) value {
		return fr.i.regexMatch(cstr(args[0], "pattern"), args[1])
	}
	verifAPI["verifHashHex"] = func(fr *frame, args []value) value {
		var s value
		switch a := args[0].(type) {
		case *byteSlice:
			s = fr.i.bytesOf(a)
		default:
			s = a
		}
		return fr.i.hashHex(s)
	}
	verifAPI["verifOr"] = func(fr *frame, args []value) value { return mkOr(args[0], args[1]) }
	verifAPI["verifAnd"] = func(fr *frame, args []value) value { return mkAnd(args[0], args[1]) }
	verifAPI["verifImplies"] = func(fr *frame, args []value) value { return mkImplies(args[0], args[1]) }
	verifAPI["verifNot"] = func(fr *frame, args []value) value { return mkNot(args[0]) }
	verifAPI["verifEvent"] = func(fr *frame, args []value) value {
		fr.i.path.events = append(fr.i.path.events, cstr(args[0], "event"))
		return nil
	}
}

// branchAssume adds c to the path condition and reports whether the path is
// still feasible (no forking: the negation is simply not explored).
func (i *interpreter) branchAssume(c *Sym) bool {
	p := i.path
	r := i.solve([]string{c.e}, nil)
	if r.res == "unsat" {
		return false
	}
	p.assume(c)
	return true
}

// hashHex models hex(sha256(s)) as an uninterpreted function with the
// right shape; nothing about injectivity is assumed.
func (i *interpreter) hashHex(s value) value {
	p := i.path
	if c, ok := s.(string); ok {
		return i.hashHexConcrete(c)
	}
	if !p.declSet["HashHex"] {
		p.declSet["HashHex"] = true
		p.decls = append(p.decls, "(declare-fun HashHex (String) String)")
	}
	p.usesStr = true
	h := &Sym{sort: SStr, e: "(HashHex " + tStr(s) + ")"}
	key := "hashshape:" + h.e
	if !p.declSet[key] {
		p.declSet[key] = true
		p.pc = append(p.pc, "(str.in_re "+h.e+" ((_ re.loop 64 64) (re.union (re.range \"0\" \"9\") (re.range \"a\" \"f\"))))")
	}
	return h
}
