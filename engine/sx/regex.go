package sx

// Go regular expressions -> SMT-LIB RegLan (byte semantics; see DESIGN.md).

import (
	"regexp"
	"regexp/syntax"
	"strconv"
	"strings"
	"sync"
)

var reCache sync.Map

var loopRe = regexp.MustCompile(`re\.loop (\d+) `)

type compiledRe struct {
	goRe *regexp.Regexp
	// unanchored literal alternatives => str.contains disjunction
	literals []string
	smt      string // full-match RegLan (with re.all padding where unanchored)
	heavy    bool
	// \A[class]{min,max}\z patterns can be decided from alphabet and length facts
	classRep       *[256]bool
	repMin, repMax int
	err            string
}

func compileRe(pattern string) *compiledRe {
	if c, ok := reCache.Load(pattern); ok {
		return c.(*compiledRe)
	}
	c := &compiledRe{}
	c.goRe = regexp.MustCompile(pattern)
	re, err := syntax.Parse(pattern, syntax.Perl)
	if err != nil {
		c.err = err.Error()
	} else {
		c.build(re)
		c.heavy = len(c.smt) > 600
		for _, m := range loopRe.FindAllStringSubmatch(c.smt, -1) {
			if n, _ := strconv.Atoi(m[1]); n >= 16 {
				c.heavy = true
			}
		}
	}
	reCache.Store(pattern, c)
	return c
}

func (c *compiledRe) build(re *syntax.Regexp) {
	// literal / alternation of literals, unanchored
	if lits, ok := literalAlts(re); ok {
		c.literals = lits
		return
	}
	// a top-level alternation whose alternatives carry their own anchors
	// (`^a|b$`): the union of the alternatives' languages, each padded where
	// it is not anchored
	if re.Op == syntax.OpAlternate {
		var alts []string
		for _, alt := range re.Sub {
			sub := &compiledRe{}
			sub.build(alt)
			if sub.err != "" {
				c.err = sub.err
				return
			}
			if sub.literals != nil {
				var ls []string
				for _, l := range sub.literals {
					ls = append(ls, "(str.to_re "+smtStr(l)+")")
				}
				body := ls[0]
				if len(ls) > 1 {
					body = "(re.union " + strings.Join(ls, " ") + ")"
				}
				alts = append(alts, "(re.++ re.all "+body+" re.all)")
				continue
			}
			alts = append(alts, sub.smt)
		}
		c.smt = "(re.union " + strings.Join(alts, " ") + ")"
		return
	}
	var subs []*syntax.Regexp
	if re.Op == syntax.OpConcat {
		subs = re.Sub
	} else {
		subs = []*syntax.Regexp{re}
	}
	startAnch, endAnch := false, false
	if len(subs) > 0 && (subs[0].Op == syntax.OpBeginText) {
		startAnch = true
		subs = subs[1:]
	}
	if len(subs) > 0 && (subs[len(subs)-1].Op == syntax.OpEndText) {
		endAnch = true
		subs = subs[:len(subs)-1]
	}
	if startAnch && endAnch && len(subs) == 1 {
		r := subs[0]
		if r.Op == syntax.OpRepeat && r.Sub[0].Op == syntax.OpCharClass {
			var set [256]bool
			cc := r.Sub[0]
			for k := 0; k < len(cc.Rune); k += 2 {
				for b := cc.Rune[k]; b <= cc.Rune[k+1] && b < 256; b++ {
					set[b] = true
				}
			}
			c.classRep, c.repMin, c.repMax = &set, r.Min, r.Max
		}
	}
	var parts []string
	if !startAnch {
		parts = append(parts, "re.all")
	}
	for _, s := range subs {
		t, ok := reToSMT(s)
		if !ok {
			c.err = "unsupported regexp construct in " + re.String()
			return
		}
		parts = append(parts, t)
	}
	if !endAnch {
		parts = append(parts, "re.all")
	}
	switch len(parts) {
	case 0:
		c.smt = `(str.to_re "")`
	case 1:
		c.smt = parts[0]
	default:
		c.smt = "(re.++ " + strings.Join(parts, " ") + ")"
	}
}

func literalAlts(re *syntax.Regexp) ([]string, bool) {
	switch re.Op {
	case syntax.OpLiteral:
		if re.Flags&syntax.FoldCase != 0 {
			return nil, false
		}
		return []string{string(re.Rune)}, true
	case syntax.OpAlternate:
		var out []string
		for _, s := range re.Sub {
			l, ok := literalAlts(s)
			if !ok {
				return nil, false
			}
			out = append(out, l...)
		}
		return out, true
	case syntax.OpConcat:
		// literal prefix factoring produced by Simplify: lit (alt of lits)
		var acc = []string{""}
		for _, s := range re.Sub {
			l, ok := literalAlts(s)
			if !ok {
				return nil, false
			}
			var next []string
			for _, a := range acc {
				for _, b := range l {
					next = append(next, a+b)
				}
			}
			acc = next
		}
		return acc, true
	case syntax.OpCapture:
		return literalAlts(re.Sub[0])
	case syntax.OpCharClass:
		if len(re.Rune) == 2 && re.Rune[0] == re.Rune[1] {
			return []string{string(re.Rune[0])}, true
		}
		// small classes (from factoring)
		n := 0
		for k := 0; k < len(re.Rune); k += 2 {
			n += int(re.Rune[k+1]-re.Rune[k]) + 1
		}
		if n <= 4 {
			var out []string
			for k := 0; k < len(re.Rune); k += 2 {
				for r := re.Rune[k]; r <= re.Rune[k+1]; r++ {
					out = append(out, string(r))
				}
			}
			return out, true
		}
	case syntax.OpEmptyMatch:
		return []string{""}, true
	}
	return nil, false
}

func reToSMT(re *syntax.Regexp) (string, bool) {
	switch re.Op {
	case syntax.OpEmptyMatch:
		return `(str.to_re "")`, true
	case syntax.OpLiteral:
		if re.Flags&syntax.FoldCase != 0 {
			var parts []string
			for _, r := range re.Rune {
				lo, up := strings.ToLower(string(r)), strings.ToUpper(string(r))
				if lo == up {
					parts = append(parts, "(str.to_re "+smtStr(string(r))+")")
				} else {
					parts = append(parts, "(re.union (str.to_re "+smtStr(lo)+") (str.to_re "+smtStr(up)+"))")
				}
			}
			if len(parts) == 1 {
				return parts[0], true
			}
			return "(re.++ " + strings.Join(parts, " ") + ")", true
		}
		return "(str.to_re " + smtStr(string(re.Rune)) + ")", true
	case syntax.OpCharClass:
		var parts []string
		for k := 0; k < len(re.Rune); k += 2 {
			lo, hi := re.Rune[k], re.Rune[k+1]
			if lo > 255 {
				continue
			}
			if hi > 255 {
				hi = 255
			}
			if lo == hi {
				parts = append(parts, "(str.to_re "+smtStr(string([]byte{byte(lo)}))+")")
			} else {
				parts = append(parts, "(re.range "+smtStr(string([]byte{byte(lo)}))+" "+smtStr(string([]byte{byte(hi)}))+")")
			}
		}
		if len(parts) == 0 {
			return "re.none", true
		}
		if len(parts) == 1 {
			return parts[0], true
		}
		return "(re.union " + strings.Join(parts, " ") + ")", true
	case syntax.OpAnyChar:
		return `(re.range "\u{0}" "\u{ff}")`, true
	case syntax.OpAnyCharNotNL:
		return `(re.union (re.range "\u{0}" "\u{9}") (re.range "\u{b}" "\u{ff}"))`, true
	case syntax.OpCapture:
		return reToSMT(re.Sub[0])
	case syntax.OpStar, syntax.OpPlus, syntax.OpQuest:
		s, ok := reToSMT(re.Sub[0])
		if !ok {
			return "", false
		}
		op := map[syntax.Op]string{syntax.OpStar: "re.*", syntax.OpPlus: "re.+", syntax.OpQuest: "re.opt"}[re.Op]
		return "(" + op + " " + s + ")", true
	case syntax.OpRepeat:
		s, ok := reToSMT(re.Sub[0])
		if !ok {
			return "", false
		}
		if re.Max < 0 {
			return "(re.++ ((_ re.loop " + itoa(re.Min) + " " + itoa(re.Min) + ") " + s + ") (re.* " + s + "))", true
		}
		return "((_ re.loop " + itoa(re.Min) + " " + itoa(re.Max) + ") " + s + ")", true
	case syntax.OpConcat, syntax.OpAlternate:
		var parts []string
		for _, sub := range re.Sub {
			s, ok := reToSMT(sub)
			if !ok {
				return "", false
			}
			parts = append(parts, s)
		}
		op := "re.++"
		if re.Op == syntax.OpAlternate {
			op = "re.union"
		}
		if len(parts) == 1 {
			return parts[0], true
		}
		return "(" + op + " " + strings.Join(parts, " ") + ")", true
	}
	return "", false
}

func itoa(n int) string {
	return strings.TrimSpace(strings.Replace(smtInt(int64(n)), " ", "", -1))
}

// regexMatch: does the Go regexp match (anywhere in) s?
func (i *interpreter) regexMatch(pattern string, s value) value {
	c := compileRe(pattern)
	if cs, ok := s.(string); ok {
		return c.goRe.MatchString(cs)
	}
	if c.literals != nil {
		var r value = false
		for _, l := range c.literals {
			r = mkOr(r, mkContains(s, l))
		}
		return r
	}
	if c.err != "" {
		unsup("regexp %q: %s", pattern, c.err)
	}
	if c.classRep != nil {
		if ss, ok := s.(*Sym); ok {
			if a, ok := i.path.alpha[ss.e]; ok {
				sub := true
				for b := 0; b < 256; b++ {
					if a[b] && !c.classRep[b] {
						sub = false
					}
				}
				lo, hi := i.path.ivOf(i.path.mkLen(ss))
				if sub && lo != nil && hi != nil && lo.IsInt64() && hi.IsInt64() && int(lo.Int64()) >= c.repMin && (c.repMax < 0 || int(hi.Int64()) <= c.repMax) {
					return true
				}
			}
		}
	}
	r := mkInRe(s, c.smt).(*Sym)
	r.heavy = c.heavy
	return r
}

func init() {
	intrinsics["regexp.MustCompile"] = func(fr *frame, a []value) value {
		pat := cstr(a[0], "regexp pattern")
		compileRe(pat)
		return &nativeObj{kind: "regexp", v: pat}
	}
	intrinsics["regexp.Compile"] = func(fr *frame, a []value) value {
		pat := cstr(a[0], "regexp pattern")
		if _, err := regexp.Compile(pat); err != nil {
			return tuple{(*value)(nil), fr.i.newError(err.Error())}
		}
		return tuple{&nativeObj{kind: "regexp", v: pat}, nilErr()}
	}
	rePat := func(fr *frame, v value) string {
		no, ok := v.(*nativeObj)
		if !ok {
			fr.i.checkPoison(v, "regexp receiver")
			unsup("regexp receiver %T", v)
		}
		return no.v.(string)
	}
	intrinsics["(*regexp.Regexp).MatchString"] = func(fr *frame, a []value) value {
		return fr.i.regexMatch(rePat(fr, a[0]), a[1])
	}
	intrinsics["(*regexp.Regexp).Match"] = func(fr *frame, a []value) value {
		return fr.i.regexMatch(rePat(fr, a[0]), fr.i.strArg(a[1]))
	}
	intrinsics["(*regexp.Regexp).String"] = func(fr *frame, a []value) value { return rePat(fr, a[0]) }
	intrinsics["(*regexp.Regexp).FindStringSubmatch"] = func(fr *frame, a []value) value {
		pat := rePat(fr, a[0])
		s, ok := a[1].(string)
		if !ok {
			if r := fr.i.findSubmatchStructured(pat, a[1]); r != nil {
				return r
			}
			if r, decided := fr.i.findSubmatchPrefix(pat, a[1]); decided {
				return r
			}
			unsup("FindStringSubmatch on symbolic string (%s)", pat)
		}
		m := compileRe(pat).goRe.FindStringSubmatch(s)
		if m == nil {
			return []value(nil)
		}
		r := make([]value, len(m))
		for k, x := range m {
			r[k] = x
		}
		return r
	}
	intrinsics["(*regexp.Regexp).ReplaceAllString"] = func(fr *frame, a []value) value {
		pat := rePat(fr, a[0])
		s, ok := a[1].(string)
		repl, ok2 := a[2].(string)
		if ok && ok2 {
			return compileRe(pat).goRe.ReplaceAllString(s, repl)
		}
		if pat == "(?m)^[ \\t]+" && ok2 && repl == "" {
			return fr.i.undent(a[1])
		}
		unsup("ReplaceAllString on symbolic string (%s)", pat)
		return nil
	}
	intrinsics["(*regexp.Regexp).FindStringIndex"] = func(fr *frame, a []value) value {
		pat := rePat(fr, a[0])
		s, ok := a[1].(string)
		if !ok {
			unsup("FindStringIndex on symbolic string (%s)", pat)
		}
		m := compileRe(pat).goRe.FindStringIndex(s)
		if m == nil {
			return []value(nil)
		}
		return []value{int64(m[0]), int64(m[1])}
	}
	intrinsics["(*regexp.Regexp).FindString"] = func(fr *frame, a []value) value {
		pat := rePat(fr, a[0])
		s, ok := a[1].(string)
		if !ok {
			unsup("FindString on symbolic string (%s)", pat)
		}
		return compileRe(pat).goRe.FindString(s)
	}
}

// undent models ReplaceAllString(`(?m)^[ \t]+`, "") segment-wise: concrete
// segments are rewritten with the real regexp (given whether they start at a
// line start), white-space segments become a fresh white-space segment, and
// "undented" segments (no blank at any line start) are unchanged.
func (i *interpreter) undent(s value) value {
	p := i.path
	re := regexp.MustCompile(`(?m)^[ \t]+`)
	var out value = ""
	atStart := true // the next byte is at a line start
	for _, sg := range segmentsOf(s) {
		switch sg := sg.(type) {
		case string:
			if sg == "" {
				continue
			}
			t := sg
			if atStart {
				t = re.ReplaceAllString(sg, "")
			} else {
				// protect the first line fragment
				k := strings.IndexByte(sg, '\n')
				if k >= 0 {
					t = sg[:k+1] + re.ReplaceAllString(sg[k+1:], "")
				}
			}
			out = mkConcat(out, t)
			last := sg[len(sg)-1]
			atStart = last == '\n' || (atStart && strings.Trim(sg, " \t") == "") || (strings.LastIndexByte(sg, '\n') >= 0 && strings.Trim(sg[strings.LastIndexByte(sg, '\n')+1:], " \t") == "")
		case *Sym:
			switch {
			case p.facts["class|asciiws|"+sg.e] && p.memo["undent|"+sg.e] != nil:
				out = mkConcat(out, p.memo["undent|"+sg.e].(*Sym))
				atStart = true
			case p.facts["class|asciiws|"+sg.e]:
				w := p.freshVar("undws", SStr)
				p.memo["undent|"+sg.e] = w
				p.classCons = append(p.classCons, classCon{w, "(re.* (re.union (re.range \"\\u{9}\" \"\\u{d}\") (str.to_re \" \")))", "asciiws"})
				p.pc = append(p.pc, "(<= (str.len "+w.e+") (str.len "+sg.e+"))")
				p.facts["class|asciiws|"+w.e] = true
				out = mkConcat(out, w)
				atStart = true // conservatively: following blanks would be removed; callers keep non-blank starts after ws
			case p.facts["class|undented|"+sg.e]:
				out = mkConcat(out, sg)
				atStart = false
			default:
				// unstructured text: the result is an arbitrary string no longer than the input
				i.ex.noteApprox("Undent of unstructured symbolic text is over-approximated by an arbitrary string")
				w := p.freshVar("undany", SStr)
				p.pc = append(p.pc, "(<= (str.len "+w.e+") (str.len "+sg.e+"))")
				out = mkConcat(out, w)
				atStart = false
			}
		}
	}
	return out
}

// findSubmatchStructured handles `lit1(\d+)lit2.*` (unanchored) on inputs of
// the shape  concrete(ending in lit1) ++ digits-only symbol ++ concrete(starting
// with lit2) ++ anything-without-newline; returns nil if the shape does not fit.
func (i *interpreter) findSubmatchStructured(pat string, s value) value {
	re, err := syntax.Parse(pat, syntax.Perl)
	if err != nil || re.Op != syntax.OpConcat || len(re.Sub) != 4 {
		return nil
	}
	l1, g, l2, rest := re.Sub[0], re.Sub[1], re.Sub[2], re.Sub[3]
	if l1.Op != syntax.OpLiteral || l2.Op != syntax.OpLiteral || g.Op != syntax.OpCapture || rest.Op != syntax.OpStar {
		return nil
	}
	if g.Sub[0].Op != syntax.OpPlus || g.Sub[0].Sub[0].Op != syntax.OpCharClass || g.Sub[0].Sub[0].String() != `\d` && g.Sub[0].Sub[0].String() != `[0-9]` {
		return nil
	}
	lit1, lit2 := string(l1.Rune), string(l2.Rune)
	segs := segmentsOf(s)
	if len(segs) < 3 {
		return nil
	}
	c0, ok0 := segs[0].(string)
	d, ok1 := segs[1].(*Sym)
	c2, ok2 := segs[2].(string)
	if !ok0 || !ok1 || !ok2 || !strings.HasSuffix(c0, lit1) || !strings.HasPrefix(c2, lit2) || strings.Contains(c0[:len(c0)-len(lit1)], lit1) {
		return nil
	}
	p := i.path
	a, ok := p.alpha[d.e]
	if !ok {
		return nil
	}
	for b := 0; b < 256; b++ {
		if a[b] && (b < '0' || b > '9') {
			return nil
		}
	}
	lo, _ := p.ivOf(p.mkLen(d))
	if lo == nil || lo.Sign() <= 0 {
		return nil
	}
	// ".*" stops at a newline: the remaining segments must be newline free
	for _, sg := range segs[2:] {
		switch sg := sg.(type) {
		case string:
			if strings.Contains(sg, "\n") {
				return nil
			}
		case *Sym:
			if !p.noContain(sg.e, "\n") {
				return nil
			}
		}
	}
	whole := mkConcat(mkConcat(lit1, d), concatOf(segs[2:]))
	return []value{whole, d}
}

// findSubmatchPrefix decides FindStringSubmatch for a pattern anchored at the
// start whose items (literals, single character classes, alternations of
// literals, possibly captured) are matched against the concrete text the
// string is known to start with; a final ".*$" accepts the rest when it is
// known to be free of newlines. Leftmost-first semantics are kept: an
// alternative is only skipped when it fails on concrete bytes. Anything that
// cannot be decided on the concrete lead returns decided=false.
func (i *interpreter) findSubmatchPrefix(pat string, s value) (value, bool) {
	re, err := syntax.Parse(pat, syntax.Perl)
	if err != nil || re.Op != syntax.OpConcat || len(re.Sub) < 2 || (re.Sub[0].Op != syntax.OpBeginText && re.Sub[0].Op != syntax.OpBeginLine) {
		return nil, false
	}
	p := i.path
	lead := leadText(s)
	for k := 0; k < len(lead); k++ {
		if lead[k] >= 0x80 {
			return nil, false
		}
	}
	whole := len(segmentsOf(s)) <= 1 && lead != "" || isConcreteStr(s)
	off := 0
	groups := make([]value, re.MaxCap()+1)
	for k := range groups {
		groups[k] = ""
	}
	noMatch := func() (value, bool) { return []value(nil), true }
	// cmp: 1 literal matches at off, 0 mismatch on concrete bytes, -1 the lead is too short to tell
	cmp := func(lit string) int {
		n := len(lit)
		avail := len(lead) - off
		if avail >= n {
			if lead[off:off+n] == lit {
				return 1
			}
			return 0
		}
		if lead[off:] != lit[:avail] {
			return 0
		}
		if whole {
			return 0 // the string ends here
		}
		return -1
	}
	var matchItem func(it *syntax.Regexp) int // 1 ok, 0 no match, -1 undecided
	matchItem = func(it *syntax.Regexp) int {
		if it.Flags&syntax.FoldCase != 0 {
			return -1
		}
		switch it.Op {
		case syntax.OpLiteral:
			r := cmp(string(it.Rune))
			if r == 1 {
				off += len(string(it.Rune))
			}
			return r
		case syntax.OpCharClass:
			if off >= len(lead) {
				if whole {
					return 0
				}
				return -1
			}
			c := rune(lead[off])
			in := false
			for k := 0; k+1 < len(it.Rune); k += 2 {
				if c >= it.Rune[k] && c <= it.Rune[k+1] {
					in = true
				}
			}
			if !in {
				return 0
			}
			off++
			return 1
		case syntax.OpAlternate:
			for _, alt := range it.Sub {
				if alt.Op != syntax.OpLiteral || alt.Flags&syntax.FoldCase != 0 {
					return -1
				}
				switch cmp(string(alt.Rune)) {
				case 1:
					off += len(string(alt.Rune))
					return 1
				case -1:
					return -1
				}
			}
			return 0
		case syntax.OpCapture:
			start := off
			r := matchItem(it.Sub[0])
			if r == 1 {
				groups[it.Cap] = lead[start:off]
			}
			return r
		}
		return -1
	}
	items := re.Sub[1:]
	for k := 0; k < len(items); k++ {
		it := items[k]
		if it.Op == syntax.OpStar && it.Sub[0].Op == syntax.OpAnyCharNotNL {
			// ".*" then the end: the rest must be newline free
			restOK := k == len(items)-1 || (k == len(items)-2 && (items[k+1].Op == syntax.OpEndText || items[k+1].Op == syntax.OpEndLine))
			if !restOK {
				return nil, false
			}
			if strings.Contains(lead[off:], "\n") {
				return nil, false
			}
			for _, sg := range segmentsOf(s)[1:] {
				switch sg := sg.(type) {
				case string:
					if strings.Contains(sg, "\n") {
						return nil, false
					}
				case *Sym:
					if !p.noContain(sg.e, "\n") {
						return nil, false
					}
				}
			}
			groups[0] = s
			return groups, true
		}
		switch matchItem(it) {
		case 0:
			return noMatch()
		case -1:
			return nil, false
		}
	}
	groups[0] = lead[:off]
	return groups, true
}

func isConcreteStr(v value) bool { _, ok := v.(string); return ok }
