package sx

// Leaf natives: runtime/bytealg/sync/os functions the interpreter cannot
// execute from source, plus engine-side models of a few std types.

import (
	"fmt"
	"go/types"
	"golang.org/x/tools/go/ssa"
	"strings"
	"unicode/utf8"
)

func (ex *Explorer) noteApprox(s string) {
	ex.mu.Lock()
	defer ex.mu.Unlock()
	if ex.Approx == nil {
		ex.Approx = map[string]int{}
	}
	ex.Approx[s]++
}

func (ex *Explorer) noteAssumption(s string) {
	ex.mu.Lock()
	defer ex.mu.Unlock()
	if ex.Assumptions == nil {
		ex.Assumptions = map[string]int{}
	}
	ex.Assumptions[s]++
}

func (ex *Explorer) bound(name string, def int64) int64 {
	if v, ok := ex.Bounds[name]; ok {
		return v
	}
	return def
}

// side tables keyed by object address
type syncState struct {
	once map[*value]bool
	wg   map[*value]int64
	held map[*value]int // mutex state: 0 free, -1 write-locked, n>0 read-locked n times
}

func (i *interpreter) sync() *syncState {
	if i.syncSt == nil {
		i.syncSt = &syncState{once: map[*value]bool{}, wg: map[*value]int64{}, held: map[*value]int{}}
	}
	return i.syncSt
}

func init() {
	reg := func(name string, h intrinsic) { intrinsics[name] = h }
	nop := func(fr *frame, a []value) value { return nil }

	// ---- sync
	for _, n := range []string{"runtime.Gosched", "runtime.KeepAlive", "runtime.SetFinalizer"} {
		reg(n, nop)
	}
	reg("(*sync.Once).Do", func(fr *frame, a []value) value {
		st := fr.i.sync()
		p := a[0].(*value)
		if st.once[p] {
			return nil
		}
		st.once[p] = true
		call(fr.i, fr, 0, a[1], nil)
		return nil
	})
	// sync.Pool: no pooling, Get makes a new value
	reg("(*sync.Pool).Get", func(fr *frame, a []value) value {
		i := fr.i
		t := i.namedType("sync", "Pool")
		st := (*(a[0].(*value))).(structure)
		nf := st[i.fieldIndex(t, "New")]
		if nf == nil {
			return iface{}
		}
		if c, ok := nf.(*closure); ok && c == nil {
			return iface{}
		}
		if f, ok := nf.(*ssa.Function); ok && f == nil {
			return iface{}
		}
		return call(i, fr, 0, nf, nil)
	})
	reg("(*sync.Pool).Put", func(fr *frame, a []value) value { return nil })
	reg("(*sync.WaitGroup).Add", func(fr *frame, a []value) value {
		st := fr.i.sync()
		p := a[0].(*value)
		st.wg[p] += fr.i.concreteInt(a[1], "WaitGroup delta")
		if st.wg[p] < 0 {
			panic(targetPanic{runtime: true, msg: "sync: negative WaitGroup counter"})
		}
		return nil
	})
	reg("(*sync.WaitGroup).Done", func(fr *frame, a []value) value {
		st := fr.i.sync()
		p := a[0].(*value)
		st.wg[p]--
		if st.wg[p] < 0 {
			panic(targetPanic{runtime: true, msg: "sync: negative WaitGroup counter"})
		}
		return nil
	})
	reg("(*sync.WaitGroup).Wait", func(fr *frame, a []value) value {
		st := fr.i.sync()
		p := a[0].(*value)
		if st.wg[p] > 0 {
			fr.i.sched.block("WaitGroup.Wait", func() bool { return st.wg[p] <= 0 })
		}
		return nil
	})
	// mutexes: real exclusion between the coroutines (a goroutine that blocks
	// inside a critical section keeps the others out)
	lock := func(fr *frame, a []value) value {
		st := fr.i.sync()
		p := a[0].(*value)
		if st.held[p] != 0 {
			fr.i.sched.block("Mutex.Lock", func() bool { return st.held[p] == 0 })
		}
		st.held[p] = -1
		return nil
	}
	unlock := func(fr *frame, a []value) value {
		st := fr.i.sync()
		p := a[0].(*value)
		if st.held[p] == 0 {
			panic(targetPanic{runtime: true, msg: "sync: unlock of unlocked mutex"})
		}
		st.held[p] = 0
		return nil
	}
	reg("(*sync.Mutex).Lock", lock)
	reg("(*sync.Mutex).Unlock", unlock)
	reg("(*sync.RWMutex).Lock", lock)
	reg("(*sync.RWMutex).Unlock", unlock)
	reg("(*sync.RWMutex).RLock", func(fr *frame, a []value) value {
		st := fr.i.sync()
		p := a[0].(*value)
		if st.held[p] < 0 {
			fr.i.sched.block("RWMutex.RLock", func() bool { return st.held[p] >= 0 })
		}
		st.held[p]++
		return nil
	})
	reg("(*sync.RWMutex).RUnlock", func(fr *frame, a []value) value {
		st := fr.i.sync()
		p := a[0].(*value)
		if st.held[p] <= 0 {
			panic(targetPanic{runtime: true, msg: "sync: RUnlock of unlocked RWMutex"})
		}
		st.held[p]--
		return nil
	})
	reg("(*sync.Mutex).TryLock", func(fr *frame, a []value) value {
		st := fr.i.sync()
		p := a[0].(*value)
		if st.held[p] != 0 {
			return false
		}
		st.held[p] = -1
		return true
	})

	// ---- sync/atomic on plain cells
	reg("sync/atomic.AddInt32", func(fr *frame, a []value) value {
		p := a[0].(*value)
		*p = fr.i.binopInt("+", *p, a[1], types.Typ[types.Int32])
		return *p
	})
	for _, tn := range []struct {
		n string
		t types.Type
	}{{"Int32", types.Typ[types.Int32]}, {"Int64", types.Typ[types.Int64]}, {"Uint32", types.Typ[types.Uint32]}, {"Uint64", types.Typ[types.Uint64]}, {"Uintptr", types.Typ[types.Uintptr]}} {
		tn := tn
		if _, ok := intrinsics["sync/atomic.Add"+tn.n]; !ok {
			reg("sync/atomic.Add"+tn.n, func(fr *frame, a []value) value {
				p := a[0].(*value)
				*p = fr.i.binopInt("+", *p, a[1], tn.t)
				return *p
			})
		}
		if _, ok := intrinsics["sync/atomic.Load"+tn.n]; !ok {
			reg("sync/atomic.Load"+tn.n, func(fr *frame, a []value) value { return *(a[0].(*value)) })
		}
		if _, ok := intrinsics["sync/atomic.Swap"+tn.n]; !ok {
			reg("sync/atomic.Swap"+tn.n, func(fr *frame, a []value) value {
				p := a[0].(*value)
				old := *p
				*p = a[1]
				return old
			})
		}
		if _, ok := intrinsics["sync/atomic.Store"+tn.n]; !ok {
			reg("sync/atomic.Store"+tn.n, func(fr *frame, a []value) value { *(a[0].(*value)) = a[1]; return nil })
		}
	}
	reg("sync/atomic.AddInt64", func(fr *frame, a []value) value {
		p := a[0].(*value)
		*p = fr.i.binopInt("+", *p, a[1], types.Typ[types.Int64])
		return *p
	})
	reg("sync/atomic.AddUint32", func(fr *frame, a []value) value {
		p := a[0].(*value)
		*p = fr.i.binopInt("+", *p, a[1], types.Typ[types.Uint32])
		return *p
	})
	for _, n := range []string{"LoadInt32", "LoadInt64", "LoadUint32", "LoadUint64", "LoadPointer"} {
		reg("sync/atomic."+n, func(fr *frame, a []value) value { return *(a[0].(*value)) })
	}
	for _, n := range []string{"StoreInt32", "StoreInt64", "StoreUint32", "StoreUint64"} {
		reg("sync/atomic."+n, func(fr *frame, a []value) value { *(a[0].(*value)) = a[1]; return nil })
	}
	casf := func(fr *frame, a []value) value {
		p := a[0].(*value)
		if fr.i.branch(fr.i.path.equalsV(types.Typ[types.Int64], *p, a[1])) {
			*p = a[2]
			return true
		}
		return false
	}
	reg("sync/atomic.CompareAndSwapInt32", casf)
	reg("sync/atomic.CompareAndSwapInt64", casf)
	reg("sync/atomic.CompareAndSwapUint32", casf)
	// atomic.Int32 / Int64 / Uint32 / Bool value types: struct{_ noCopy; v T} (field order differs; find the last field)
	atomField := func(a value) *value {
		s := (*(a.(*value))).(structure)
		return &s[len(s)-1]
	}
	for _, T := range []string{"Int32", "Int64", "Uint32", "Uint64"} {
		T := T
		bt := map[string]types.Type{"Int32": types.Typ[types.Int32], "Int64": types.Typ[types.Int64], "Uint32": types.Typ[types.Uint32], "Uint64": types.Typ[types.Uint64]}[T]
		reg("(*sync/atomic."+T+").Load", func(fr *frame, a []value) value { return *atomField(a[0]) })
		reg("(*sync/atomic."+T+").Store", func(fr *frame, a []value) value { *atomField(a[0]) = a[1]; return nil })
		reg("(*sync/atomic."+T+").Add", func(fr *frame, a []value) value {
			f := atomField(a[0])
			*f = fr.i.binopInt("+", *f, a[1], bt)
			return *f
		})
		reg("(*sync/atomic."+T+").CompareAndSwap", func(fr *frame, a []value) value {
			f := atomField(a[0])
			if fr.i.branch(fr.i.path.equalsV(bt, *f, a[1])) {
				*f = a[2]
				return true
			}
			return false
		})
	}
	reg("(*sync/atomic.Bool).Load", func(fr *frame, a []value) value {
		f := atomField(a[0])
		return fr.i.path.mkIntCmp("=", *f, int64(1))
	})
	reg("(*sync/atomic.Bool).Store", func(fr *frame, a []value) value {
		*atomField(a[0]) = mkIte(a[1], int64(1), int64(0))
		return nil
	})

	// ---- internal/bytealg & friends (concrete or symbolic)
	reg("internal/bytealg.IndexByteString", func(fr *frame, a []value) value {
		return fr.i.path.mkIndexOf(a[0], mkFromCode(a[1]), int64(0))
	})
	reg("internal/bytealg.IndexByte", func(fr *frame, a []value) value {
		return fr.i.path.mkIndexOf(fr.i.strArg(a[0]), mkFromCode(a[1]), int64(0))
	})
	reg("internal/bytealg.IndexString", func(fr *frame, a []value) value {
		return fr.i.path.mkIndexOf(a[0], a[1], int64(0))
	})
	reg("internal/bytealg.Index", func(fr *frame, a []value) value {
		return fr.i.path.mkIndexOf(fr.i.strArg(a[0]), fr.i.strArg(a[1]), int64(0))
	})
	reg("internal/bytealg.CountString", func(fr *frame, a []value) value {
		s, ok := a[0].(string)
		if !ok {
			unsup("bytealg.CountString symbolic")
		}
		return int64(strings.Count(s, string([]byte{byte(fr.i.concreteInt(a[1], "byte"))})))
	})
	reg("internal/bytealg.Count", func(fr *frame, a []value) value {
		s, ok := fr.i.strArg(a[0]).(string)
		if !ok {
			unsup("bytealg.Count symbolic")
		}
		return int64(strings.Count(s, string([]byte{byte(fr.i.concreteInt(a[1], "byte"))})))
	})
	reg("internal/bytealg.Equal", func(fr *frame, a []value) value {
		return mkStrEq(fr.i.strArg(a[0]), fr.i.strArg(a[1]))
	})
	reg("internal/bytealg.Compare", func(fr *frame, a []value) value {
		x, y := fr.i.strArg(a[0]), fr.i.strArg(a[1])
		return mkIte(mkStrEq(x, y), int64(0), mkIte(mkStrLt(x, y), int64(-1), int64(1)))
	})
	reg("internal/bytealg.CompareString", func(fr *frame, a []value) value {
		return mkIte(mkStrEq(a[0], a[1]), int64(0), mkIte(mkStrLt(a[0], a[1]), int64(-1), int64(1)))
	})
	reg("internal/bytealg.MakeNoZero", func(fr *frame, a []value) value {
		n := a[0]
		return fr.i.makeSlice(types.NewSlice(types.Typ[types.Uint8]), n, n)
	})
	reg("internal/stringslite.Index", func(fr *frame, a []value) value { return fr.i.path.mkIndexOf(a[0], a[1], int64(0)) })
	reg("internal/stringslite.IndexByte", func(fr *frame, a []value) value {
		return fr.i.path.mkIndexOf(a[0], mkFromCode(a[1]), int64(0))
	})
	reg("internal/stringslite.HasPrefix", func(fr *frame, a []value) value { return mkPrefixOf(a[1], a[0]) })
	reg("internal/stringslite.HasSuffix", func(fr *frame, a []value) value { return mkSuffixOf(a[1], a[0]) })
	reg("internal/stringslite.Clone", func(fr *frame, a []value) value { return a[0] })
	reg("strings.Clone", func(fr *frame, a []value) value { return a[0] })
	reg("bytes.Clone", func(fr *frame, a []value) value {
		bs, _ := a[0].(*byteSlice)
		if bs == nil {
			return (*byteSlice)(nil)
		}
		return fr.i.newBytes(fr.i.bytesOf(bs))
	})
	reg("unicode/utf8.ValidString", func(fr *frame, a []value) value {
		s, ok := a[0].(string)
		if !ok {
			unsup("utf8.ValidString symbolic")
		}
		return utf8.ValidString(s)
	})
	reg("unicode/utf8.RuneCountInString", func(fr *frame, a []value) value {
		s, ok := a[0].(string)
		if !ok {
			unsup("utf8.RuneCountInString symbolic")
		}
		return int64(utf8.RuneCountInString(s))
	})

	// ---- strings.Builder as an engine-side accumulator on the real struct {addr, buf}
	sbBuf := func(a value) *value {
		s := (*(a.(*value))).(structure)
		return &s[len(s)-1]
	}
	sbAppend := func(fr *frame, recv value, s value) {
		f := sbBuf(recv)
		cur, _ := (*f).(*byteSlice)
		var content value = ""
		if cur != nil {
			content = fr.i.bytesOf(cur)
		}
		*f = fr.i.newBytes(fr.i.compact(mkConcat(content, s)))
	}
	reg("(*strings.Builder).WriteString", func(fr *frame, a []value) value {
		sbAppend(fr, a[0], a[1])
		return tuple{fr.i.path.mkLen(a[1]), nilErr()}
	})
	reg("(*strings.Builder).Write", func(fr *frame, a []value) value {
		s := fr.i.strArg(a[1])
		sbAppend(fr, a[0], s)
		return tuple{fr.i.path.mkLen(s), nilErr()}
	})
	reg("(*strings.Builder).WriteByte", func(fr *frame, a []value) value {
		sbAppend(fr, a[0], mkFromCode(a[1]))
		return nilErr()
	})
	reg("(*strings.Builder).WriteRune", func(fr *frame, a []value) value {
		r := rune(fr.i.concreteInt(a[1], "rune"))
		sbAppend(fr, a[0], string(r))
		return tuple{int64(utf8.RuneLen(r)), nilErr()}
	})
	reg("(*strings.Builder).String", func(fr *frame, a []value) value {
		cur, _ := (*sbBuf(a[0])).(*byteSlice)
		if cur == nil {
			return ""
		}
		return fr.i.bytesOf(cur)
	})
	reg("(*strings.Builder).Len", func(fr *frame, a []value) value {
		cur, _ := (*sbBuf(a[0])).(*byteSlice)
		if cur == nil {
			return int64(0)
		}
		return cur.len
	})
	reg("(*strings.Builder).Grow", nop)
	reg("(*strings.Builder).Reset", func(fr *frame, a []value) value { *sbBuf(a[0]) = (*byteSlice)(nil); return nil })

	// ---- os / runtime environment
	reg("runtime.Callers", func(fr *frame, a []value) value { return int64(0) })
	reg("runtime.Caller", func(fr *frame, a []value) value { return tuple{int64(0), "", int64(0), false} })
	reg("syscall.Umask", func(fr *frame, a []value) value { return int64(022) })
	reg("os.Getpid", func(fr *frame, a []value) value { return int64(4242) })
	reg("os.Getuid", func(fr *frame, a []value) value { return int64(1000) })
	reg("os.Geteuid", func(fr *frame, a []value) value { return int64(1000) })
	reg("os.Getenv", func(fr *frame, a []value) value { return "" })
	reg("os.LookupEnv", func(fr *frame, a []value) value { return tuple{"", false} })
	reg("os.Exit", func(fr *frame, a []value) value {
		i := fr.i
		i.path.events = append(i.path.events, fmt.Sprintf("exit(%v)", a[0]))
		if !i.expectExit {
			// an exit the harness did not announce is reported like a panic
			i.reportPanic(targetPanic{msg: fmt.Sprintf("unexpected os.Exit(%v) at %s", a[0], i.posOf(fr.caller.curInstr))})
		}
		panic(pathEnd{reason: "exit", detail: fmt.Sprint(a[0])})
	})
	reg("github.com/git-lfs/git-lfs/v3/tools.Indent", func(fr *frame, a []value) value {
		if c, ok := a[0].(string); ok {
			if c == "" {
				return ""
			}
			return "\t" + strings.Replace(c, "\n", "\n\t", -1)
		}
		// only used to lay out messages: opaque for symbolic text
		fr.i.ex.noteApprox("tools.Indent on symbolic text is opaque (message formatting)")
		return fr.i.nondetInternalString("indent")
	})
	reg("github.com/rubyist/tracerx.Printf", nop)
	reg("github.com/rubyist/tracerx.PerformanceSince", nop)
	reg("github.com/rubyist/tracerx.PerformanceSinceKey", nop)

	// ---- translations: gotext behaves like Sprintf with the msgid as format
	trGet := func(fr *frame, a []value) value {
		args, _ := a[2].([]value)
		if len(args) == 0 {
			return a[1]
		}
		return fr.i.sprintf(fr, cstr(a[1], "tr format"), args)
	}
	reg("(*github.com/leonelquinteros/gotext.Locale).Get", trGet)
	reg("(*github.com/leonelquinteros/gotext.Locale).GetN", func(fr *frame, a []value) value {
		args, _ := a[4].([]value)
		n := a[3]
		one := fr.i.sprintf(fr, cstr(a[1], "tr format"), args)
		many := fr.i.sprintf(fr, cstr(a[2], "tr plural format"), args)
		return mkIte(fr.i.path.mkIntCmp("=", n, int64(1)), one, many)
	})
}

// binopInt: typed integer + for natives.
func (i *interpreter) binopInt(op string, x, y value, t types.Type) value {
	bits, signed := intInfo(t)
	xc, xok := x.(int64)
	yc, yok := y.(int64)
	if xok && yok {
		return norm(xc+yc, bits, signed)
	}
	return i.path.wrapSym(i.path.mkAdd(x, y), t)
}

// ---- bytes.Buffer as an engine-side accumulator on the real struct {buf, off, lastRead}
func init() {
	reg := func(name string, h intrinsic) { intrinsics[name] = h }
	fields := func(a value) (buf *value, off *value) {
		p, ok := a.(*value)
		if !ok || p == nil {
			rtPanic("nil *bytes.Buffer")
		}
		s := (*p).(structure)
		return &s[0], &s[1]
	}
	unread := func(fr *frame, a value) value {
		buf, off := fields(a)
		cur, _ := (*buf).(*byteSlice)
		if cur == nil {
			return ""
		}
		all := fr.i.bytesOf(cur)
		p := fr.i.path
		return p.mkSubstr(all, *off, p.mkSub(p.mkLen(all), *off))
	}
	appendTo := func(fr *frame, a value, s value) {
		buf, off := fields(a)
		rest := unread(fr, a)
		*buf = fr.i.newBytes(fr.i.compact(mkConcat(rest, s)))
		*off = int64(0)
	}
	reg("bytes.NewBuffer", func(fr *frame, a []value) value {
		t := fr.i.namedType("bytes", "Buffer")
		cell := zero(t)
		cell.(structure)[0] = a[0]
		return &cell
	})
	reg("bytes.NewBufferString", func(fr *frame, a []value) value {
		t := fr.i.namedType("bytes", "Buffer")
		cell := zero(t)
		cell.(structure)[0] = fr.i.newBytes(a[0])
		return &cell
	})
	reg("(*bytes.Buffer).Write", func(fr *frame, a []value) value {
		s := fr.i.strArg(a[1])
		appendTo(fr, a[0], s)
		return tuple{fr.i.path.mkLen(s), nilErr()}
	})
	reg("(*bytes.Buffer).WriteString", func(fr *frame, a []value) value {
		appendTo(fr, a[0], a[1])
		return tuple{fr.i.path.mkLen(a[1]), nilErr()}
	})
	reg("(*bytes.Buffer).WriteByte", func(fr *frame, a []value) value {
		appendTo(fr, a[0], mkFromCode(a[1]))
		return nilErr()
	})
	reg("(*bytes.Buffer).WriteRune", func(fr *frame, a []value) value {
		r := rune(fr.i.concreteInt(a[1], "rune"))
		appendTo(fr, a[0], string(r))
		return tuple{int64(utf8.RuneLen(r)), nilErr()}
	})
	reg("(*bytes.Buffer).String", func(fr *frame, a []value) value {
		if p, ok := a[0].(*value); ok && p == nil {
			return "<nil>"
		}
		return unread(fr, a[0])
	})
	reg("(*bytes.Buffer).Bytes", func(fr *frame, a []value) value {
		// aliasing with the buffer's storage is not modelled: a copy is returned
		fr.i.ex.noteApprox("bytes.Buffer.Bytes returns a copy (aliasing with later writes not modelled)")
		return fr.i.newBytes(unread(fr, a[0]))
	})
	reg("(*bytes.Buffer).Len", func(fr *frame, a []value) value { return fr.i.path.mkLen(unread(fr, a[0])) })
	reg("(*bytes.Buffer).Reset", func(fr *frame, a []value) value {
		buf, off := fields(a[0])
		*buf = (*byteSlice)(nil)
		*off = int64(0)
		return nil
	})
	reg("(*bytes.Buffer).Grow", func(fr *frame, a []value) value { return nil })
	reg("(*bytes.Buffer).Truncate", func(fr *frame, a []value) value {
		i := fr.i
		rest := unread(fr, a[0])
		n := a[1]
		i.require(mkAnd(i.path.mkIntCmp("<=", int64(0), n), i.path.mkIntCmp("<=", n, i.path.mkLen(rest))), "bytes.Buffer: truncation out of range")
		buf, off := fields(a[0])
		*buf = i.newBytes(i.path.mkSubstr(rest, int64(0), n))
		*off = int64(0)
		return nil
	})
	reg("(*bytes.Buffer).Read", func(fr *frame, a []value) value {
		i := fr.i
		p := i.path
		rest := unread(fr, a[0])
		dst, _ := a[1].(*byteSlice)
		if !i.branch(p.mkIntCmp(">", p.mkLen(rest), int64(0))) {
			var dl value = int64(0)
			if dst != nil {
				dl = dst.len
			}
			if !i.branch(p.mkIntCmp(">", dl, int64(0))) {
				return tuple{int64(0), nilErr()}
			}
			return tuple{int64(0), i.globalValue("io", "EOF")}
		}
		n := i.byteCopy(dst, rest)
		_, off := fields(a[0])
		*off = p.mkAdd(*off, n)
		return tuple{n, nilErr()}
	})
	reg("(*bytes.Buffer).Next", func(fr *frame, a []value) value {
		i := fr.i
		p := i.path
		rest := unread(fr, a[0])
		n := p.mkMin(a[1], p.mkLen(rest))
		_, off := fields(a[0])
		*off = p.mkAdd(*off, n)
		return i.newBytes(p.mkSubstr(rest, int64(0), n))
	})
}
