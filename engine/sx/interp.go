package sx

// Symbolic interpreter for go/ssa functions (structure after
// golang.org/x/tools/go/ssa/interp, BSD licence).

import (
	"fmt"
	"go/token"
	"go/types"
	"os"
	"strings"

	"golang.org/x/tools/go/ssa"
)

type continuation int

const (
	kNext continuation = iota
	kReturn
	kJump
)

type targetPanic struct {
	v       value
	runtime bool // Go run-time error (index, nil, ...)
	msg     string
}

func (p targetPanic) String() string {
	if p.msg != "" {
		return p.msg
	}
	return toString(p.v)
}

type interpreter struct {
	prog               *ssa.Program
	ex                 *Explorer
	path               *Path
	ss                 *solverSet
	globals            map[*ssa.Global]*value
	pkgInit            map[*ssa.Package]int
	initDepth          int
	sizes              types.Sizes
	runtimeErrorString types.Type
	trace              bool
	overrides          map[string]value // function name -> replacement function value
	crashed            bool
	sched              *scheduler
	deadlockMsg        string // set by verifNoDeadlock: deadlocks are violations
	callDepth          int
	syncSt             *syncState
	lastNow            value
	fsSt               *fsState
	expectExit         bool
	jsonDocs           []*jdoc
}

type deferred struct {
	fn    value
	args  []value
	instr *ssa.Defer
	tail  *deferred
}

type frame struct {
	i                *interpreter
	caller           *frame
	fn               *ssa.Function
	block, prevBlock *ssa.BasicBlock
	env              map[ssa.Value]value
	locals           []value
	defers           *deferred
	result           value
	panicking        bool
	panic            interface{}
	phitemps         []value
	symIf            map[*ssa.BasicBlock]int
	curInstr         ssa.Instruction
}

func (fr *frame) get(key ssa.Value) value {
	switch key := key.(type) {
	case nil:
		return nil
	case *ssa.Function, *ssa.Builtin:
		return key
	case *ssa.Const:
		return constValue(key)
	case *ssa.Global:
		return fr.i.globalAddr(key)
	}
	if r, ok := fr.env[key]; ok {
		return r
	}
	panic(fmt.Sprintf("get: no value for %T: %v", key, key.Name()))
}

func (i *interpreter) posOf(instr ssa.Instruction) string {
	if instr == nil {
		return ""
	}
	pos := instr.Pos()
	if pos == token.NoPos {
		return instr.Parent().String()
	}
	p := i.prog.Fset.Position(pos)
	return fmt.Sprintf("%s:%d", strings.TrimPrefix(strings.TrimPrefix(p.Filename, "/repo/"), os.Getenv("VERIF_REPO")+"/"), p.Line)
}

// rtPanic raises a Go run-time panic in the target program.
func rtPanic(msg string) {
	panic(targetPanic{runtime: true, msg: "runtime error: " + msg})
}

func (fr *frame) runDefer(d *deferred) {
	var ok bool
	defer func() {
		if !ok {
			r := recover()
			if isEngineAbort(r) {
				panic(r)
			}
			fr.panicking = true
			fr.panic = r
		}
	}()
	call(fr.i, fr, d.instr.Pos(), d.fn, d.args)
	ok = true
}

// isEngineAbort: panics that target code must never intercept.
func isEngineAbort(r interface{}) bool {
	switch r.(type) {
	case targetPanic:
		return false
	case nil:
		return false
	}
	return true
}

func (fr *frame) runDefers() {
	for d := fr.defers; d != nil; d = d.tail {
		fr.runDefer(d)
	}
	fr.defers = nil
	if fr.panicking {
		panic(fr.panic)
	}
}

func lookupMethod(i *interpreter, typ types.Type, meth *types.Func) *ssa.Function {
	return i.prog.LookupMethod(typ, meth.Pkg(), meth.Name())
}

func constValue(c *ssa.Const) value {
	if c.Value == nil {
		return zero(c.Type())
	}
	if t, ok := c.Type().Underlying().(*types.Basic); ok {
		switch {
		case t.Info()&types.IsBoolean != 0:
			return constantBool(c)
		case t.Info()&types.IsInteger != 0:
			if t.Info()&types.IsUnsigned != 0 {
				return int64(c.Uint64())
			}
			return c.Int64()
		case t.Info()&types.IsFloat != 0:
			return c.Float64()
		case t.Info()&types.IsString != 0:
			return constantString(c)
		case t.Info()&types.IsComplex != 0:
			return poison{"complex"}
		}
	}
	panic(fmt.Sprintf("constValue: %s", c))
}

func (i *interpreter) step(fr *frame) {
	p := i.path
	p.steps++
	if p.steps > i.ex.MaxSteps {
		panic(pathEnd{reason: "budget", detail: fmt.Sprintf("instruction budget %d exhausted in %s", i.ex.MaxSteps, fr.fn)})
	}
}

func visitInstr(fr *frame, instr ssa.Instruction) continuation {
	i := fr.i
	fr.curInstr = instr
	i.step(fr)
	switch instr := instr.(type) {
	case *ssa.DebugRef:

	case *ssa.UnOp:
		fr.env[instr] = i.unop(fr, instr, fr.get(instr.X))

	case *ssa.BinOp:
		fr.env[instr] = i.binop(instr.Op, instr.X.Type(), fr.get(instr.X), fr.get(instr.Y))

	case *ssa.Call:
		fn, args := prepareCall(fr, &instr.Call)
		fr.env[instr] = call(i, fr, instr.Pos(), fn, args)

	case *ssa.ChangeInterface:
		fr.env[instr] = fr.get(instr.X)

	case *ssa.ChangeType:
		fr.env[instr] = fr.get(instr.X)

	case *ssa.Convert:
		fr.env[instr] = i.conv(instr.Type(), instr.X.Type(), fr.get(instr.X))

	case *ssa.MultiConvert:
		fr.env[instr] = i.conv(instr.Type(), instr.X.Type(), fr.get(instr.X))

	case *ssa.SliceToArrayPointer:
		unsup("SliceToArrayPointer")

	case *ssa.MakeInterface:
		fr.env[instr] = iface{t: instr.X.Type(), v: fr.get(instr.X)}

	case *ssa.Extract:
		t, ok := fr.get(instr.Tuple).(tuple)
		if !ok {
			fr.env[instr] = fr.get(instr.Tuple) // poison
		} else {
			fr.env[instr] = t[instr.Index]
		}

	case *ssa.Slice:
		fr.env[instr] = i.slice(instr, fr.get(instr.X), fr.get(instr.Low), fr.get(instr.High), fr.get(instr.Max))

	case *ssa.Return:
		switch len(instr.Results) {
		case 0:
		case 1:
			fr.result = fr.get(instr.Results[0])
		default:
			var res []value
			for _, r := range instr.Results {
				res = append(res, fr.get(r))
			}
			fr.result = tuple(res)
		}
		fr.block = nil
		return kReturn

	case *ssa.RunDefers:
		fr.runDefers()

	case *ssa.Panic:
		panic(targetPanic{v: fr.get(instr.X)})

	case *ssa.Send:
		i.chanSend(fr.get(instr.Chan).(*channel), fr.get(instr.X))

	case *ssa.Store:
		i.storeTo(mustDeref(instr.Addr.Type()), fr.get(instr.Addr), fr.get(instr.Val))

	case *ssa.If:
		c := fr.get(instr.Cond)
		if _, isS := c.(*Sym); isS {
			if fr.symIf == nil {
				fr.symIf = map[*ssa.BasicBlock]int{}
			}
			fr.symIf[fr.block]++
			if fr.symIf[fr.block] > i.ex.Unwind {
				i.path.obls = append(i.path.obls, &Obligation{Kind: "unwind", Msg: fmt.Sprintf("unwinding limit %d reached", i.ex.Unwind), Pos: i.posOf(instr), Status: "undecided"})
				panic(pathEnd{reason: "unwind", detail: i.posOf(instr)})
			}
		}
		succ := 1
		if i.branchAt(c, instr) {
			succ = 0
		}
		fr.prevBlock, fr.block = fr.block, fr.block.Succs[succ]
		return kJump

	case *ssa.Jump:
		fr.prevBlock, fr.block = fr.block, fr.block.Succs[0]
		return kJump

	case *ssa.Defer:
		fn, args := prepareCall(fr, &instr.Call)
		defers := &fr.defers
		if instr.DeferStack != nil {
			if into := fr.get(instr.DeferStack); into != nil {
				defers = into.(**deferred)
			}
		}
		*defers = &deferred{fn: fn, args: args, instr: instr, tail: *defers}

	case *ssa.Go:
		fn, args := prepareCall(fr, &instr.Call)
		i.spawn(fr, instr, fn, args)

	case *ssa.MakeChan:
		n := i.concreteInt(fr.get(instr.Size), "chan size")
		fr.env[instr] = &channel{cap: int(n)}

	case *ssa.Alloc:
		var addr *value
		if instr.Heap {
			addr = new(value)
			fr.env[instr] = addr
		} else {
			addr = fr.env[instr].(*value)
		}
		*addr = zero(mustDeref(instr.Type()))
		if ba, ok := (*addr).(byteArray); ok && ba.n > 64 {
			// large zeroed byte arrays get an opaque content of the right length
			// (over-approximation of "all zero"; code reading unwritten bytes sees arbitrary values)
			z := i.path.freshVar("zeros", SStr)
			i.path.pc = append(i.path.pc, "(= (str.len "+z.e+") "+smtInt(ba.n)+")")
			z.ln = ba.n
			ba.arr.content = z
		}

	case *ssa.MakeSlice:
		fr.env[instr] = i.makeSlice(instr.Type(), fr.get(instr.Len), fr.get(instr.Cap))

	case *ssa.MakeMap:
		fr.env[instr] = newOmap(instr.Type().Underlying().(*types.Map).Key())

	case *ssa.Range:
		fr.env[instr] = i.rangeIter(fr.get(instr.X), instr.X.Type())

	case *ssa.Next:
		fr.env[instr] = fr.get(instr.Iter).(iter).next()

	case *ssa.FieldAddr:
		x := fr.get(instr.X)
		px, ok := x.(*value)
		if !ok {
			unsup("FieldAddr on %T", x)
		}
		if px == nil {
			rtPanic("invalid memory address or nil pointer dereference")
		}
		s, ok := (*px).(structure)
		if !ok {
			unsup("FieldAddr: cell holds %T (%s)", *px, toString(*px))
		}
		fr.env[instr] = &s[instr.Field]

	case *ssa.Field:
		s, ok := fr.get(instr.X).(structure)
		if !ok {
			unsup("Field on %T", fr.get(instr.X))
		}
		fr.env[instr] = s[instr.Field]

	case *ssa.IndexAddr:
		fr.env[instr] = i.indexAddr(fr.get(instr.X), fr.get(instr.Index))

	case *ssa.Index:
		fr.env[instr] = i.index(fr.get(instr.X), fr.get(instr.Index))

	case *ssa.Lookup:
		fr.env[instr] = i.lookup(instr, fr.get(instr.X), fr.get(instr.Index))

	case *ssa.MapUpdate:
		m, ok := fr.get(instr.Map).(*omap)
		if !ok {
			unsup("MapUpdate on %T", fr.get(instr.Map))
		}
		if m == nil {
			rtPanic("assignment to entry in nil map")
		}
		m.insert(i, fr.get(instr.Key), copyVal(fr.get(instr.Value)))

	case *ssa.TypeAssert:
		x := fr.get(instr.X)
		itf, ok := x.(iface)
		if !ok {
			unsup("TypeAssert on %T", x)
		}
		fr.env[instr] = typeAssert(i, instr, itf)

	case *ssa.MakeClosure:
		var bindings []value
		for _, binding := range instr.Bindings {
			bindings = append(bindings, fr.get(binding))
		}
		fr.env[instr] = &closure{instr.Fn.(*ssa.Function), bindings}

	case *ssa.Phi:
		panic("unreachable")

	case *ssa.Select:
		fr.env[instr] = i.doSelect(fr, instr)

	default:
		panic(fmt.Sprintf("unexpected instruction: %T", instr))
	}
	return kNext
}

func prepareCall(fr *frame, call *ssa.CallCommon) (fn value, args []value) {
	v := fr.get(call.Value)
	if call.Method == nil {
		fn = v
	} else {
		recv, ok := v.(iface)
		if !ok {
			unsup("invoke on %T (%s)", v, call.Method.Name())
		}
		if recv.t == nil {
			rtPanic("invalid memory address or nil pointer dereference (method " + call.Method.Name() + " on nil interface)")
		}
		if no, ok := recv.v.(*nativeObj); ok {
			if h := nativeMethods[no.kind+"."+call.Method.Name()]; h != nil {
				fn = &nativeFn{name: no.kind + "." + call.Method.Name(), f: h}
				args = append(args, recv.v)
				for _, arg := range call.Args {
					args = append(args, fr.get(arg))
				}
				return
			}
		}
		f := lookupMethod(fr.i, recv.t, call.Method)
		if f == nil {
			panic(fmt.Sprintf("method set for dynamic type %v does not contain %s", recv.t, call.Method))
		}
		fn = f
		args = append(args, recv.v)
	}
	for _, arg := range call.Args {
		args = append(args, fr.get(arg))
	}
	return
}

type nativeFn struct {
	name string
	f    func(fr *frame, args []value) value
}

func call(i *interpreter, caller *frame, callpos token.Pos, fn value, args []value) value {
	switch fn := fn.(type) {
	case *ssa.Function:
		if fn == nil {
			rtPanic("invalid memory address or nil pointer dereference (call of nil func)")
		}
		return callSSA(i, caller, callpos, fn, args, nil)
	case *closure:
		return callSSA(i, caller, callpos, fn.Fn, args, fn.Env)
	case *ssa.Builtin:
		return i.callBuiltin(caller, callpos, fn, args)
	case *nativeFn:
		return fn.f(caller, args)
	case poison:
		unsup("call of poison: %s", fn.why)
	}
	panic(fmt.Sprintf("cannot call %T", fn))
}

func fnName(fn *ssa.Function) string {
	name := fn.String()
	if k := strings.IndexByte(name, '['); k >= 0 && fn.Origin() != nil {
		return fn.Origin().String()
	}
	return name
}

func callSSA(i *interpreter, caller *frame, callpos token.Pos, fn *ssa.Function, args []value, env []value) value {
	fr := &frame{i: i, caller: caller, fn: fn}
	if fn.Parent() == nil {
		name := fnName(fn)
		if ov, ok := i.overrides[name]; ok {
			return call(i, caller, callpos, ov, args)
		}
		if h := lookupIntrinsic(name); h != nil {
			return h(fr, args)
		}
		if target := i.ex.redirect(name); target != nil {
			return callSSA(i, caller, callpos, target, args, nil)
		}
		if fn.Blocks == nil {
			unsup("no code for function: %s", name)
		}
		if fn.Pkg != nil && i.ex.denyPkg(fn.Pkg.Pkg.Path()) {
			unsup("function in unmodelled package: %s", name)
		}
	}
	if fn.TypeParams().Len() > 0 && len(fn.TypeArgs()) == 0 {
		unsup("uninstantiated generic %s", fn)
	}
	i.callDepth++
	if i.callDepth > 400 {
		panic(pathEnd{reason: "budget", detail: "call depth"})
	}
	defer func() { i.callDepth-- }()
	if i.trace {
		fmt.Fprintf(os.Stderr, "%*sEntering %s\n", i.callDepth, "", fn)
	}
	i.ex.Funcs.Store(fn, true)

	fr.env = make(map[ssa.Value]value)
	fr.block = fn.Blocks[0]
	fr.locals = make([]value, len(fn.Locals))
	for k, l := range fn.Locals {
		fr.locals[k] = zero(mustDeref(l.Type()))
		fr.env[l] = &fr.locals[k]
	}
	for k, p := range fn.Params {
		fr.env[p] = args[k]
	}
	for k, fv := range fn.FreeVars {
		fr.env[fv] = env[k]
	}
	for fr.block != nil {
		runFrame(fr)
	}
	return fr.result
}

func runFrame(fr *frame) {
	defer func() {
		if fr.block == nil {
			return
		}
		r := recover()
		if isEngineAbort(r) {
			// annotate unsupported with location once
			if u, ok := r.(unsupported); ok && !strings.Contains(u.msg, " @ ") {
				u.msg += " @ " + fr.i.posOf(fr.curInstr) + " in " + fr.fn.String()
				panic(u)
			}
			panic(r)
		}
		if tp, ok := r.(targetPanic); ok && tp.runtime && !strings.Contains(tp.msg, " @ ") {
			tp.msg += " @ " + fr.i.posOf(fr.curInstr) + " in " + fr.fn.String()
			r = tp
		}
		fr.panicking = true
		fr.panic = r
		if fr.i.trace {
			fmt.Fprintf(os.Stderr, "Panicking in %s: %v\n", fr.fn, r)
		}
		fr.runDefers()
		fr.block = fr.fn.Recover
	}()

	for {
		nonPhis := executePhis(fr)
		for _, instr := range nonPhis {
			if fr.i.trace {
				if v, ok := instr.(ssa.Value); ok {
					fmt.Fprintf(os.Stderr, "%*s  %s = %s\n", fr.i.callDepth, "", v.Name(), instr)
				} else {
					fmt.Fprintf(os.Stderr, "%*s  %s\n", fr.i.callDepth, "", instr)
				}
			}
			if visitInstr(fr, instr) == kReturn {
				return
			}
		}
	}
}

func executePhis(fr *frame) []ssa.Instruction {
	firstNonPhi := -1
	for i, instr := range fr.block.Instrs {
		if _, ok := instr.(*ssa.Phi); !ok {
			firstNonPhi = i
			break
		}
	}
	nonPhis := fr.block.Instrs[firstNonPhi:]
	if firstNonPhi > 0 {
		phis := fr.block.Instrs[:firstNonPhi]
		predIndex := -1
		for k, b := range fr.block.Preds {
			if b == fr.prevBlock {
				predIndex = k
				break
			}
		}
		fr.phitemps = fr.phitemps[:0]
		for _, phi := range phis {
			phi := phi.(*ssa.Phi)
			fr.phitemps = append(fr.phitemps, fr.get(phi.Edges[predIndex]))
		}
		for i, phi := range phis {
			fr.env[phi.(*ssa.Phi)] = fr.phitemps[i]
		}
	}
	return nonPhis
}

func doRecover(caller *frame) value {
	if caller != nil && !caller.panicking &&
		caller.caller != nil && caller.caller.panicking {
		p := caller.caller.panic
		switch p := p.(type) {
		case targetPanic:
			caller.caller.panicking = false
			caller.caller.panic = nil
			if p.runtime {
				return iface{caller.i.runtimeErrorString, p.msg}
			}
			return p.v
		default:
			panic(p)
		}
	}
	return iface{}
}

// ---------------------------------------------------------------- globals / init

func (i *interpreter) globalAddr(g *ssa.Global) *value {
	if r, ok := i.globals[g]; ok {
		return r
	}
	// first touch of this package: allocate its globals and run its init
	pkg := g.Pkg
	i.ensureInit(pkg)
	if r, ok := i.globals[g]; ok {
		return r
	}
	panic("global not allocated: " + g.String())
}

func (i *interpreter) ensureInit(pkg *ssa.Package) {
	if i.pkgInit[pkg] != 0 {
		return
	}
	i.pkgInit[pkg] = 1
	for _, m := range pkg.Members {
		if g, ok := m.(*ssa.Global); ok {
			cell := zero(mustDeref(g.Type()))
			i.globals[g] = &cell
		}
	}
	path := pkg.Pkg.Path()
	if i.ex.skipInit(path) {
		// globals stay zero but are marked poison so that reads are noticed
		for _, m := range pkg.Members {
			if g, ok := m.(*ssa.Global); ok {
				if _, isIface := mustDeref(g.Type()).Underlying().(*types.Interface); isIface || true {
					if h := globalInitHook(g); h != nil {
						*i.globals[g] = h(i)
						continue
					}
					*i.globals[g] = poison{"global of unmodelled package " + g.String()}
				}
			}
		}
		i.pkgInit[pkg] = 2
		return
	}
	initFn := pkg.Func("init")
	if initFn != nil && initFn.Blocks != nil {
		i.runInit(initFn)
	}
	for _, m := range pkg.Members {
		if g, ok := m.(*ssa.Global); ok {
			if h := globalInitHook(g); h != nil {
				*i.globals[g] = h(i)
			}
		}
	}
	i.pkgInit[pkg] = 2
}

// runInit executes a package init function poison-tolerantly: a call that the
// engine cannot model yields poison instead of aborting.
func (i *interpreter) runInit(fn *ssa.Function) {
	i.initDepth++
	saveSteps := i.path.steps
	defer func() {
		i.initDepth--
		i.path.steps = saveSteps // init cost is not charged to the path budget
	}()
	fr := &frame{i: i, fn: fn}
	fr.env = make(map[ssa.Value]value)
	fr.locals = make([]value, len(fn.Locals))
	for k, l := range fn.Locals {
		fr.locals[k] = zero(mustDeref(l.Type()))
		fr.env[l] = &fr.locals[k]
	}
	fr.block = fn.Blocks[0]
	for fr.block != nil {
		nonPhis := executePhis(fr)
		jumped := false
		for _, instr := range nonPhis {
			k := i.initInstr(fr, instr)
			if k == kReturn {
				return
			}
			if k == kJump {
				jumped = true
				break
			}
		}
		if !jumped {
			return
		}
	}
}

func (i *interpreter) initInstr(fr *frame, instr ssa.Instruction) (k continuation) {
	// calls to other packages' init are skipped: initialisation is lazy
	if c, ok := instr.(*ssa.Call); ok {
		if f, ok := c.Call.Value.(*ssa.Function); ok && f.Name() == "init" && f.Pkg != fr.fn.Pkg && f.Signature.Recv() == nil {
			fr.env[c] = nil
			return kNext
		}
	}
	defer func() {
		if r := recover(); r != nil {
			switch r := r.(type) {
			case unsupported:
				if v, ok := instr.(ssa.Value); ok {
					fr.env[v] = poison{r.msg}
				}
				k = kNext
				if _, isIf := instr.(*ssa.If); isIf {
					k = kReturn
				}
			case targetPanic:
				if v, ok := instr.(ssa.Value); ok {
					fr.env[v] = poison{"panic in init: " + r.String()}
				}
				k = kNext
			case pathEnd:
				if r.reason == "budget" {
					if v, ok := instr.(ssa.Value); ok {
						fr.env[v] = poison{"init budget"}
					}
					k = kNext
					return
				}
				panic(r)
			default:
				panic(r)
			}
		}
	}()
	if _, ok := instr.(*ssa.If); ok {
		if _, isP := fr.get(instr.(*ssa.If).Cond).(poison); isP {
			return kReturn
		}
	}
	return visitInstr(fr, instr)
}

func (i *interpreter) checkPoison(v value, what string) {
	if p, ok := v.(poison); ok {
		unsup("%s: poison value (%s)", what, p.why)
	}
}
