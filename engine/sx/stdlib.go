package sx

import (
	"crypto/sha256"
	"encoding/hex"
	"fmt"
	"go/types"
	"math/big"
	"strconv"
	"strings"

	"golang.org/x/tools/go/ssa"
)

// ---------------------------------------------------------------- helpers

func (i *interpreter) strArg(v value) value {
	switch v := v.(type) {
	case string, *Sym:
		return v
	case *byteSlice:
		return i.bytesOf(v)
	}
	i.checkPoison(v, "string argument")
	panic(fmt.Sprintf("strArg: %T", v))
}

func (i *interpreter) namedType(pkgPath, name string) types.Type {
	pkg := i.prog.ImportedPackage(pkgPath)
	if pkg == nil {
		unsup("package %s not loaded", pkgPath)
	}
	m := pkg.Members[name]
	if m == nil {
		unsup("type %s.%s not found", pkgPath, name)
	}
	return m.Type()
}

func (i *interpreter) globalValue(pkgPath, name string) value {
	pkg := i.prog.ImportedPackage(pkgPath)
	if pkg == nil {
		unsup("package %s not loaded", pkgPath)
	}
	g, ok := pkg.Members[name].(*ssa.Global)
	if !ok {
		unsup("global %s.%s not found", pkgPath, name)
	}
	return *i.globalAddr(g)
}

// newError builds an error value with the given (possibly symbolic) message
// using the standard errors.errorString type.
func (i *interpreter) newError(msg value) value {
	t := i.namedType("errors", "errorString")
	cell := value(structure{msg})
	return iface{t: types.NewPointer(t), v: &cell}
}

func nilErr() value { return iface{} }

// slicesOfStrings builds a []string value.
func stringSlice(parts []value) value {
	r := make([]value, len(parts))
	copy(r, parts)
	return r
}

// callMethod invokes a method by name on an interface value through the interpreter.
func (i *interpreter) callMethod(fr *frame, recv iface, name string, args ...value) value {
	if recv.t == nil {
		rtPanic("nil interface method call " + name)
	}
	if no, ok := recv.v.(*nativeObj); ok {
		if h := nativeMethods[no.kind+"."+name]; h != nil {
			return h(fr, append([]value{recv.v}, args...))
		}
	}
	ms := i.prog.MethodSets.MethodSet(recv.t)
	for k := 0; k < ms.Len(); k++ {
		sel := ms.At(k)
		if sel.Obj().Name() == name {
			f := i.prog.MethodValue(sel)
			return call(i, fr, 0, f, append([]value{recv.v}, args...))
		}
	}
	unsup("method %s not found on %s", name, recv.t)
	return nil
}

// errorString returns err.Error() as a string value.
func (i *interpreter) errorText(fr *frame, e iface) value {
	return i.callMethod(fr, e, "Error")
}

// ---------------------------------------------------------------- whitespace

const wsTokenRe = `(re.union (re.range "\u{9}" "\u{d}") (str.to_re " ") (str.to_re "\u{c2}\u{85}") (str.to_re "\u{c2}\u{a0}") (str.to_re "\u{e1}\u{9a}\u{80}") (re.++ (str.to_re "\u{e2}\u{80}") (re.range "\u{80}" "\u{8a}")) (str.to_re "\u{e2}\u{80}\u{a8}") (str.to_re "\u{e2}\u{80}\u{a9}") (str.to_re "\u{e2}\u{80}\u{af}") (str.to_re "\u{e2}\u{81}\u{9f}") (str.to_re "\u{e3}\u{80}\u{80}"))`

// trimSpace models strings.TrimSpace / bytes.TrimSpace exactly (Unicode
// White_Space as UTF-8 byte sequences). Returns (lead, core, trail).
func (i *interpreter) trimSpace(s value) (value, value, value) {
	if c, ok := s.(string); ok {
		l := strings.TrimLeftFunc(c, isSpaceRune)
		lead := c[:len(c)-len(l)]
		core := strings.TrimSpace(c)
		return lead, core, c[len(lead)+len(core):]
	}
	p := i.path
	// syntactic decomposition: [asciiws]* ++ trimmed-core ++ [asciiws]*
	if segs := segmentsOf(s); len(segs) >= 1 {
		isWS := func(sg interface{}) bool {
			switch sg := sg.(type) {
			case string:
				return stringInClass(sg, "asciiws")
			case *Sym:
				if p.facts["class|asciiws|"+sg.e] {
					return true
				}
				if a, ok := p.alpha[sg.e]; ok {
					for b := 0; b < 256; b++ {
						if a[b] && !(b >= 9 && b <= 13 || b == ' ') {
							return false
						}
					}
					return true
				}
			}
			return false
		}
		lo, hi := 0, len(segs)
		for lo < hi && isWS(segs[lo]) {
			lo++
		}
		for hi > lo && isWS(segs[hi-1]) {
			hi--
		}
		if lo == hi {
			return s, "", ""
		}
		mid := concatOf(segs[lo:hi])
		if cs, ok := mid.(*Sym); ok && p.facts["class|trimmed|"+cs.e] {
			return concatOf(segs[:lo]), cs, concatOf(segs[hi:])
		}
		// a concrete last white-space byte run may sit inside the last concrete segment
		if last, ok := segs[hi-1].(string); ok {
			t := strings.TrimRight(last, "\t\n\v\f\r ")
			if t != last && t != "" {
				segs = append(append(append([]interface{}{}, segs[:hi-1]...), t, last[len(t):]), segs[hi:]...)
				mid = concatOf(segs[lo:hi])
				hi = hi // position unchanged: segs[hi] is now the white-space remainder
			}
		}
		if p.edgeSafe(segs[lo], true) && p.edgeSafe(segs[hi-1], false) {
			return concatOf(segs[:lo]), mid, concatOf(segs[hi:])
		}
		// a non-empty block known to be trimmed, followed by segments that may be
		// empty but cannot end in a white-space byte: nothing is trimmed on either side
		for j := hi; j > lo; j-- {
			blk, ok := concatOf(segs[lo:j]).(*Sym)
			if !ok || !p.facts["class|trimmed|"+blk.e] {
				continue
			}
			nonEmpty := false
			for _, sg := range segs[lo:j] {
				if c, ok := sg.(string); ok && c != "" {
					nonEmpty = true
				} else if y, ok := sg.(*Sym); ok {
					if l, _ := p.ivOf(p.mkLen(y)); l != nil && l.Sign() > 0 {
						nonEmpty = true
					}
				}
			}
			tailOK := true
			for _, sg := range segs[j:hi] {
				if !p.noEdgeByte(sg, false) {
					tailOK = false
				}
			}
			if nonEmpty && tailOK {
				return concatOf(segs[:lo]), mid, concatOf(segs[hi:])
			}
			break
		}
		if c, ok := mid.(string); ok && stringInClass(c, "trimmed") {
			return concatOf(segs[:lo]), c, concatOf(segs[hi:])
		}
		// every remaining segment (possibly empty) is free of bytes that can
		// start or end a white-space rune: nothing can be trimmed
		free := true
		for _, sg := range segs[lo:hi] {
			if !p.noEdgeByte(sg, true) || !p.noEdgeByte(sg, false) {
				free = false
			}
		}
		if free {
			return concatOf(segs[:lo]), mid, concatOf(segs[hi:])
		}
	}
	i.ex.noteApprox("TrimSpace: general (regex) encoding used")
	if m, ok := p.memo["trim|"+tStr(s)]; ok {
		r := m.([3]value)
		return r[0], r[1], r[2]
	}
	a := p.freshVar("wsL", SStr)
	t := p.freshVar("core", SStr)
	b := p.freshVar("wsR", SStr)
	p.memo["trim|"+tStr(s)] = [3]value{a, t, b}
	// cheap part in the path condition: the decomposition and the ASCII edge
	// conditions; the exact (Unicode) white-space languages are kept lazily
	// and asserted in obligation/witness queries only
	first := "(str.to_code (str.at " + t.e + " 0))"
	last := "(str.to_code (str.at " + t.e + " (- (str.len " + t.e + ") 1)))"
	notAsciiWS := func(c string) string {
		return "(not (or (and (<= 9 " + c + ") (<= " + c + " 13)) (= " + c + " 32)))"
	}
	p.pc = append(p.pc,
		"(= "+tStr(s)+" (str.++ "+a.e+" "+t.e+" "+b.e+"))",
		"(or (= (str.len "+t.e+") 0) (and "+notAsciiWS(first)+" "+notAsciiWS(last)+"))")
	p.lazy = append(p.lazy,
		"(str.in_re "+a.e+" (re.* "+wsTokenRe+"))",
		"(str.in_re "+b.e+" (re.* "+wsTokenRe+"))",
		"(not (str.in_re "+t.e+" (re.++ "+wsTokenRe+" re.all)))",
		"(not (str.in_re "+t.e+" (re.++ re.all "+wsTokenRe+")))")
	return a, t, b
}

// edgeSafe: the segment is provably non-empty and its first (or last) byte
// cannot belong to a white-space rune's encoding.
func (p *Path) edgeSafe(sg interface{}, first bool) bool {
	excl := trimLastExcl
	if first {
		excl = trimFirstExcl
	}
	switch sg := sg.(type) {
	case string:
		if sg == "" {
			return false
		}
		b := sg[len(sg)-1]
		if first {
			b = sg[0]
		}
		return !inSet(b, excl)
	case *Sym:
		lo, _ := p.ivOf(p.mkLen(sg))
		if lo == nil || lo.Sign() <= 0 {
			return false
		}
		if p.facts["class|trimmed|"+sg.e] {
			return true
		}
		a, ok := p.alpha[sg.e]
		if !ok {
			return false
		}
		for b := 0; b < 256; b++ {
			if a[b] && inSet(byte(b), excl) {
				return false
			}
		}
		return true
	}
	return false
}

// noEdgeByte: no byte the (possibly empty) segment can hold belongs to the
// first (or last) byte of a white-space rune's encoding.
func (p *Path) noEdgeByte(sg interface{}, first bool) bool {
	excl := trimLastExcl
	if first {
		excl = trimFirstExcl
	}
	switch sg := sg.(type) {
	case string:
		for k := 0; k < len(sg); k++ {
			if inSet(sg[k], excl) {
				return false
			}
		}
		return true
	case *Sym:
		a, ok := p.alpha[sg.e]
		if !ok {
			return false
		}
		for b := 0; b < 256; b++ {
			if a[b] && inSet(byte(b), excl) {
				return false
			}
		}
		return true
	}
	return false
}

func isSpaceRune(r rune) bool {
	switch r {
	case '\t', '\n', '\v', '\f', '\r', ' ', 0x85, 0xA0, 0x1680, 0x2028, 0x2029, 0x202f, 0x205f, 0x3000:
		return true
	}
	return r >= 0x2000 && r <= 0x200a
}

// ---------------------------------------------------------------- split

// split models strings.Split / SplitN for a concrete non-empty separator.
// n < 0: all parts (bounded by the unwinding limit).
func (i *interpreter) split(s value, sep string, n int) []value {
	if c, ok := s.(string); ok {
		var parts []string
		if n < 0 {
			parts = strings.Split(c, sep)
		} else {
			parts = strings.SplitN(c, sep, n)
		}
		r := make([]value, len(parts))
		for k, x := range parts {
			r[k] = x
		}
		return r
	}
	if sep == "" {
		unsup("split with empty separator on symbolic string")
	}
	if n == 0 {
		return nil
	}
	p := i.path
	ckey := fmt.Sprintf("split|%s|%q|%d", tStr(s), sep, n)
	if c, ok := p.memo[ckey]; ok {
		return c.([]value)
	}
	var parts []value
	rest := s
	for {
		if n > 0 && len(parts) == n-1 {
			break
		}
		if len(parts) >= i.ex.Unwind {
			i.path.obls = append(i.path.obls, &Obligation{Kind: "unwind", Msg: fmt.Sprintf("Split: more than %d parts", i.ex.Unwind), Status: "undecided"})
			panic(pathEnd{reason: "unwind", detail: "split"})
		}
		if len(sep) >= 1 {
			if head, tail, found := p.splitFirst(rest, sep); found == 1 {
				parts = append(parts, head)
				rest = tail
				continue
			} else if found == 0 {
				break
			}
		}
		if !i.branch(mkContains(rest, sep)) {
			break
		}
		// word equation: rest = a ++ sep ++ b with the first occurrence of sep at |a|
		a := p.freshVar("sp", SStr)
		b := p.freshVar("sr", SStr)
		p.pc = append(p.pc, "(= "+tStr(rest)+" (str.++ "+a.e+" "+smtStr(sep)+" "+b.e+"))")
		if len(sep) == 1 {
			p.pc = append(p.pc, "(not (str.contains "+a.e+" "+smtStr(sep)+"))")
		} else {
			p.pc = append(p.pc, "(not (str.contains (str.++ "+a.e+" "+smtStr(sep[:len(sep)-1])+") "+smtStr(sep)+"))")
		}
		p.facts["nc|"+a.e+"|"+sep] = true
		parts = append(parts, a)
		rest = b
	}
	parts = append(parts, rest)
	p.memo[ckey] = parts
	return parts
}

// splitFirst finds the first occurrence of a one-byte separator syntactically:
// found = 1 (head/tail returned), 0 (provably absent), -1 (unknown).
func (p *Path) splitFirst(s value, sep string) (head, tail value, found int) {
	segs := segmentsOf(s)
	if len(sep) > 1 {
		return p.splitFirstMulti(segs, sep)
	}
	for k, sg := range segs {
		switch sg := sg.(type) {
		case string:
			if j := strings.Index(sg, sep); j >= 0 {
				head = mkConcat(concatOf(segs[:k]), sg[:j])
				tail = mkConcat(sg[j+1:], concatOf(segs[k+1:]))
				return head, tail, 1
			}
		case *Sym:
			if !p.noContain(sg.e, sep) {
				return nil, nil, -1
			}
		}
	}
	return nil, nil, 0
}

// splitFirstMulti: first occurrence of a multi-byte separator, decided only
// when every occurrence must start in a concrete segment (the separator's first
// byte is outside every symbolic segment's alphabet) and each candidate either
// completes inside concrete text or runs into a symbolic segment whose
// alphabet excludes the next needed byte.
func (p *Path) splitFirstMulti(segs []interface{}, sep string) (head, tail value, found int) {
	for _, sg := range segs {
		if ss, ok := sg.(*Sym); ok {
			a, has := p.alpha[ss.e]
			if !has || a[sep[0]] {
				return nil, nil, -1
			}
		}
	}
	for k, sg := range segs {
		c, ok := sg.(string)
		if !ok {
			continue
		}
		for j := 0; j < len(c); j++ {
			if c[j] != sep[0] {
				continue
			}
			// try to match sep from (k, j)
			si, sk, sj := 0, k, j
			res := 1 // 1 match, 0 no match, -1 unknown
			for si < len(sep) {
				if sk >= len(segs) {
					res = 0
					break
				}
				switch cur := segs[sk].(type) {
				case string:
					if sj >= len(cur) {
						sk, sj = sk+1, 0
						continue
					}
					if cur[sj] != sep[si] {
						res = 0
					}
					si, sj = si+1, sj+1
				case *Sym:
					a := p.alpha[cur.e]
					lo, _ := p.ivOf(p.mkLen(cur))
					if lo == nil || lo.Sign() <= 0 {
						res = -1 // may be empty: the match could continue behind it
					} else if a[sep[si]] {
						res = -1
					} else {
						res = 0
					}
				}
				if res != 1 {
					break
				}
			}
			if res == -1 {
				return nil, nil, -1
			}
			if res == 1 && sk == k {
				head = mkConcat(concatOf(segs[:k]), c[:j])
				tail = mkConcat(c[j+len(sep):], concatOf(segs[k+1:]))
				return head, tail, 1
			}
			if res == 1 {
				return nil, nil, -1 // a match spanning segments: leave it to the solver
			}
		}
	}
	return nil, nil, 0
}

// ---------------------------------------------------------------- numbers

const digitsRe = `(re.+ (re.range "0" "9"))`

// parseInt models strconv.ParseInt(s, 10, bits) / Atoi. Returns (value, errKind)
// where errKind is "" | "syntax" | "range"; forks on the outcome class.
func (i *interpreter) parseInt(s value, bits uint) (value, string) {
	if c, ok := s.(string); ok {
		v, err := strconv.ParseInt(c, 10, int(bits))
		if err != nil {
			if ne, ok := err.(*strconv.NumError); ok && ne.Err == strconv.ErrRange {
				return v, "range"
			}
			return int64(0), "syntax"
		}
		return v, ""
	}
	p := i.path
	ss := s.(*Sym)
	// the decimal rendering of a non-negative integer parses back to it
	if ss.op == "fromint" {
		x := ss.a[0].(*Sym)
		_, hi := p.ivOf(x)
		lim := typeRangeHi(bits)
		if hi != nil && hi.Cmp(lim) <= 0 {
			return x, ""
		}
	}
	// a provably non-empty segment without any digit or sign: not a number
	for _, sg := range segmentsOf(ss) {
		switch sg := sg.(type) {
		case string:
			for k := 0; k < len(sg); k++ {
				if !(sg[k] >= '0' && sg[k] <= '9') && !(k == 0 && (sg[k] == '+' || sg[k] == '-')) {
					return int64(0), "syntax"
				}
			}
		case *Sym:
			if a, ok := p.alpha[sg.e]; ok {
				none := true
				for b := '0'; b <= '9'; b++ {
					if a[b] {
						none = false
					}
				}
				if a['+'] || a['-'] {
					none = false
				}
				lo, _ := p.ivOf(p.mkLen(sg))
				if none && lo != nil && lo.Sign() > 0 {
					return int64(0), "syntax"
				}
			}
		}
	}
	signed := mkInRe(ss, `(re.++ (re.union (str.to_re "+") (str.to_re "-")) `+digitsRe+`)`)
	var plain value = mkInRe(ss, digitsRe)
	// digit-only alphabet and known non-empty: syntactically a plain number
	allDigits := false
	if a, ok := p.alpha[ss.e]; ok {
		allDigits = true
		for b := 0; b < 256; b++ {
			if a[b] && (b < '0' || b > '9') {
				allDigits = false
			}
		}
	}
	llo, lhi := p.ivOf(p.mkLen(ss))
	if allDigits && llo != nil && llo.Sign() > 0 {
		plain = true
	}
	if i.branch(plain) {
		n := &Sym{sort: SInt, e: "(str.to_int " + ss.e + ")", lo: bigZero}
		if allDigits && lhi != nil && lhi.IsInt64() && lhi.Int64() == 1 {
			// one digit: value = code - 48 (much easier for the solvers than str.to_int)
			return &Sym{sort: SInt, e: "(- (str.to_code " + ss.e + ") 48)", lo: bigZero, hi: bi(9)}, ""
		}
		if allDigits && lhi != nil && lhi.IsInt64() && lhi.Int64() <= 18 && bits >= 64 {
			hi := new(big.Int).Exp(bi(10), lhi, nil)
			return i.compact(&Sym{sort: SInt, e: n.e, lo: bigZero, hi: hi.Sub(hi, bigOne)}), ""
		}
		lim := typeRangeHi(bits)
		if !i.branch(p.mkIntCmp("<=", n, limVal(lim))) {
			return limVal(lim), "range"
		}
		r := i.compact(&Sym{sort: SInt, e: n.e, lo: bigZero, hi: lim})
		return r, ""
	}
	if i.branch(signed) {
		digits := p.mkSubstr(ss, int64(1), p.mkSub(p.mkLen(ss), int64(1)))
		n := &Sym{sort: SInt, e: "(str.to_int " + tStr(digits) + ")", lo: bigZero}
		lim := typeRangeHi(bits)
		if i.branch(mkStrEq(p.mkSubstr(ss, int64(0), int64(1)), "-")) {
			// negative: |v| <= 2^(bits-1)
			if !i.branch(p.mkIntCmp("<=", n, p.mkAdd(limVal(lim), int64(1)))) {
				return int64(-1) << (bits - 1), "range"
			}
			return i.compact(p.mkSub(int64(0), n)), ""
		}
		if !i.branch(p.mkIntCmp("<=", n, limVal(lim))) {
			return limVal(lim), "range"
		}
		return i.compact(&Sym{sort: SInt, e: n.e, lo: bigZero, hi: lim}), ""
	}
	return int64(0), "syntax"
}

func typeRangeHi(bits uint) *big.Int {
	_, hi := typeRange(bits, true)
	return hi
}

func limVal(b *big.Int) value { return b.Int64() }

// numError builds a *strconv.NumError.
func (i *interpreter) numError(fn string, num value, kind string) value {
	t := i.namedType("strconv", "NumError")
	var inner value
	if kind == "range" {
		inner = i.globalValue("strconv", "ErrRange")
	} else {
		inner = i.globalValue("strconv", "ErrSyntax")
	}
	cell := value(structure{fn, num, inner})
	return iface{t: types.NewPointer(t), v: &cell}
}

// itoa models strconv.Itoa / FormatInt(base 10).
func (i *interpreter) itoa(v value) value {
	if c, ok := v.(int64); ok {
		return strconv.FormatInt(c, 10)
	}
	p := i.path
	s := v.(*Sym)
	lo, _ := p.ivOf(s)
	if lo != nil && lo.Sign() >= 0 {
		r := &Sym{sort: SStr, e: "(str.from_int " + s.e + ")", op: "fromint", a: []interface{}{s}}
		var digits [256]bool
		for c := '0'; c <= '9'; c++ {
			digits[c] = true
		}
		p.setAlpha(r.e, &digits)
		p.varIv["(str.len "+r.e+")"] = ival{bigOne, bi(20)}
		return r
	}
	return &Sym{sort: SStr, e: "(ite (< " + s.e + " 0) (str.++ \"-\" (str.from_int (- " + s.e + "))) (str.from_int " + s.e + "))"}
}

// ---------------------------------------------------------------- Sprintf

// sprintf supports constant formats; verbs with symbolic operands are encoded
// exactly for %s %d %v (string/int/bool/error) and over-approximated (fresh
// string) otherwise.
func (i *interpreter) sprintf(fr *frame, format string, args []value) value {
	var out value = ""
	argi := 0
	for k := 0; k < len(format); {
		c := format[k]
		if c != '%' {
			j := strings.IndexByte(format[k:], '%')
			if j < 0 {
				j = len(format) - k
			}
			out = mkConcat(out, format[k:k+j])
			k += j
			continue
		}
		// parse verb
		j := k + 1
		for j < len(format) && strings.IndexByte("+-# 0123456789.", format[j]) >= 0 {
			j++
		}
		if j >= len(format) {
			out = mkConcat(out, "%!(NOVERB)")
			break
		}
		verb := format[j]
		spec := format[k : j+1]
		k = j + 1
		if verb == '%' {
			out = mkConcat(out, "%")
			continue
		}
		if argi >= len(args) {
			out = mkConcat(out, "%!"+string(verb)+"(MISSING)")
			continue
		}
		a := args[argi]
		argi++
		out = mkConcat(out, i.formatOne(fr, spec, verb, a))
	}
	if argi < len(args) {
		out = mkConcat(out, "%!(EXTRA)")
	}
	return i.compact(out)
}

func (i *interpreter) formatOne(fr *frame, spec string, verb byte, a value) value {
	if itf, ok := a.(iface); ok {
		if itf.t == nil {
			if verb == 'v' || verb == 's' {
				if verb == 's' {
					return "%!s(<nil>)"
				}
				return "<nil>"
			}
			return "<nil>"
		}
		// error / Stringer
		if verb == 'v' || verb == 's' || verb == 'q' {
			if hasMethod(i.prog, itf.t, "Error") {
				a = i.errorText(fr, itf)
			} else if hasMethod(i.prog, itf.t, "String") {
				a = i.callMethod(fr, itf, "String")
			} else {
				a = itf.v
			}
		} else {
			a = itf.v
		}
	}
	if bs, ok := a.(*byteSlice); ok && (verb == 's' || verb == 'q') {
		a = i.bytesOf(bs)
	}
	simple := len(spec) == 2
	switch av := a.(type) {
	case string:
		return fmt.Sprintf(spec, av)
	case int64:
		if verb == 'c' {
			return fmt.Sprintf(spec, rune(av))
		}
		return fmt.Sprintf(spec, av)
	case bool:
		return fmt.Sprintf(spec, av)
	case float64:
		return fmt.Sprintf(spec, av)
	case *Sym:
		switch av.sort {
		case SStr:
			if simple && (verb == 's' || verb == 'v') {
				return av
			}
		case SInt:
			if simple && (verb == 'd' || verb == 'v') {
				return i.itoa(av)
			}
		case SBool:
			if simple && (verb == 't' || verb == 'v') {
				return mkIte(av, "true", "false")
			}
		}
		// over-approximation: any byte string
		i.ex.noteApprox("fmt verb " + spec + " on symbolic operand")
		return i.nondetInternalString("fmt")
	case nil:
		return "<nil>"
	case *value:
		if av == nil {
			return "<nil>"
		}
		return "0xc000000000"
	case []value:
		// %v of []string etc.
		var b value = "["
		for k, e := range av {
			if k > 0 {
				b = mkConcat(b, " ")
			}
			b = mkConcat(b, i.formatOne(fr, "%"+string(verb), verb, e))
		}
		return mkConcat(b, "]")
	}
	i.ex.noteApprox(fmt.Sprintf("fmt verb %s on %T", spec, a))
	return i.nondetInternalString("fmt")
}

func (i *interpreter) nondetInternalString(prefix string) value {
	p := i.path
	s := p.freshVar(prefix, SStr)
	p.pc = append(p.pc, "(str.in_re "+s.e+" "+byteRe+")")
	return s
}

func hasMethod(prog *ssa.Program, t types.Type, name string) bool {
	ms := prog.MethodSets.MethodSet(t)
	for k := 0; k < ms.Len(); k++ {
		if ms.At(k).Obj().Name() == name {
			return true
		}
	}
	return false
}

// ---------------------------------------------------------------- registry

func concreteStrs(vs ...value) bool {
	for _, v := range vs {
		if _, ok := v.(string); !ok {
			return false
		}
	}
	return true
}

func init() {
	reg := func(name string, h intrinsic) { intrinsics[name] = h }

	// ---- strings / bytes predicates
	reg("strings.Contains", func(fr *frame, a []value) value { return fr.i.path.containsV(a[0], a[1]) })
	reg("bytes.Contains", func(fr *frame, a []value) value {
		return mkContains(fr.i.strArg(a[0]), fr.i.strArg(a[1]))
	})
	reg("strings.ContainsRune", func(fr *frame, a []value) value {
		r := fr.i.concreteInt(a[1], "rune")
		return mkContains(a[0], string(rune(r)))
	})
	reg("strings.ContainsAny", func(fr *frame, a []value) value {
		chars := cstr(a[1], "ContainsAny chars")
		var r value = false
		for _, c := range chars {
			r = mkOr(r, mkContains(a[0], string(c)))
		}
		return r
	})
	reg("strings.HasPrefix", func(fr *frame, a []value) value { return mkPrefixOf(a[1], a[0]) })
	reg("strings.HasSuffix", func(fr *frame, a []value) value { return fr.i.path.suffixV(a[1], a[0]) })
	reg("bytes.HasPrefix", func(fr *frame, a []value) value {
		return mkPrefixOf(fr.i.strArg(a[1]), fr.i.strArg(a[0]))
	})
	reg("bytes.HasSuffix", func(fr *frame, a []value) value {
		return mkSuffixOf(fr.i.strArg(a[1]), fr.i.strArg(a[0]))
	})
	reg("bytes.Equal", func(fr *frame, a []value) value {
		return mkStrEq(fr.i.strArg(a[0]), fr.i.strArg(a[1]))
	})
	reg("strings.EqualFold", func(fr *frame, a []value) value {
		if concreteStrs(a[0], a[1]) {
			return strings.EqualFold(a[0].(string), a[1].(string))
		}
		return mkStrEq(fr.i.toLowerASCII(a[0]), fr.i.toLowerASCII(a[1]))
	})
	reg("strings.Index", func(fr *frame, a []value) value { return fr.i.path.mkIndexOf(a[0], a[1], int64(0)) })
	reg("bytes.Index", func(fr *frame, a []value) value {
		return fr.i.path.mkIndexOf(fr.i.strArg(a[0]), fr.i.strArg(a[1]), int64(0))
	})
	reg("strings.IndexByte", func(fr *frame, a []value) value {
		return fr.i.path.mkIndexOf(a[0], mkFromCode(a[1]), int64(0))
	})
	reg("bytes.IndexByte", func(fr *frame, a []value) value {
		return fr.i.path.mkIndexOf(fr.i.strArg(a[0]), mkFromCode(a[1]), int64(0))
	})
	reg("strings.IndexRune", func(fr *frame, a []value) value {
		r := fr.i.concreteInt(a[1], "rune")
		return fr.i.path.mkIndexOf(a[0], string(rune(r)), int64(0))
	})
	reg("strings.IndexAny", func(fr *frame, a []value) value {
		p := fr.i.path
		if concreteStrs(a[0], a[1]) {
			return int64(strings.IndexAny(a[0].(string), a[1].(string)))
		}
		chars, ok := a[1].(string)
		if !ok {
			unsup("strings.IndexAny with symbolic character set")
		}
		for _, c := range chars {
			if c >= 0x80 {
				unsup("strings.IndexAny with non-ASCII characters on symbolic string")
			}
		}
		// minimum over the per-character first indices (-1 if none)
		var best value = int64(-1)
		for k := 0; k < len(chars); k++ {
			idx := fr.i.compact(p.mkIndexOf(a[0], chars[k:k+1], int64(0)))
			take := mkAnd(p.mkIntCmp(">=", idx, int64(0)), mkOr(p.mkIntCmp("<", best, int64(0)), p.mkIntCmp("<", idx, best)))
			best = mkIte(take, idx, best)
			if bs, ok := best.(*Sym); ok {
				bs.lo, bs.hi = bi(-1), bi(maxStrLen)
			}
		}
		return best
	})
	reg("strings.LastIndex", func(fr *frame, a []value) value {
		if concreteStrs(a[0], a[1]) {
			return int64(strings.LastIndex(a[0].(string), a[1].(string)))
		}
		return fr.i.lastIndex(a[0], cstr(a[1], "LastIndex separator"))
	})
	reg("strings.LastIndexByte", func(fr *frame, a []value) value {
		c := fr.i.concreteInt(a[1], "byte")
		if s, ok := a[0].(string); ok {
			return int64(strings.LastIndexByte(s, byte(c)))
		}
		return fr.i.lastIndex(a[0], string([]byte{byte(c)}))
	})
	reg("strings.Count", func(fr *frame, a []value) value {
		if concreteStrs(a[0], a[1]) {
			return int64(strings.Count(a[0].(string), a[1].(string)))
		}
		parts := fr.i.split(a[0], cstr(a[1], "Count separator"), -1)
		return int64(len(parts) - 1)
	})
	reg("strings.Compare", func(fr *frame, a []value) value {
		return mkIte(mkStrEq(a[0], a[1]), int64(0), mkIte(mkStrLt(a[0], a[1]), int64(-1), int64(1)))
	})

	// ---- splitting / joining
	reg("strings.Split", func(fr *frame, a []value) value {
		return stringSlice(fr.i.split(a[0], cstr(a[1], "Split separator"), -1))
	})
	reg("strings.SplitN", func(fr *frame, a []value) value {
		n := int(fr.i.concreteInt(a[2], "SplitN count"))
		parts := fr.i.split(a[0], cstr(a[1], "SplitN separator"), n)
		if parts == nil {
			return []value(nil)
		}
		return stringSlice(parts)
	})
	reg("strings.Join", func(fr *frame, a []value) value {
		elems, ok := a[0].([]value)
		if !ok {
			fr.i.checkPoison(a[0], "Join")
		}
		var r value = ""
		for k, e := range elems {
			if k > 0 {
				r = mkConcat(r, a[1])
			}
			r = mkConcat(r, e)
		}
		return fr.i.compact(r)
	})
	reg("strings.Fields", func(fr *frame, a []value) value {
		if s, ok := a[0].(string); ok {
			fs := strings.Fields(s)
			r := make([]value, len(fs))
			for k, f := range fs {
				r[k] = f
			}
			return r
		}
		return stringSlice(fr.i.fields(a[0]))
	})
	reg("strings.Repeat", func(fr *frame, a []value) value {
		n := fr.i.concreteInt(a[1], "Repeat count")
		if n < 0 {
			panic(targetPanic{v: iface{types.Typ[types.String], "strings: negative Repeat count"}})
		}
		var r value = ""
		for k := int64(0); k < n; k++ {
			r = mkConcat(r, a[0])
		}
		return r
	})

	// ---- trimming / case
	reg("strings.TrimSpace", func(fr *frame, a []value) value {
		_, t, _ := fr.i.trimSpace(a[0])
		return t
	})
	reg("bytes.TrimSpace", func(fr *frame, a []value) value {
		bs, _ := a[0].(*byteSlice)
		if bs == nil {
			return (*byteSlice)(nil)
		}
		i := fr.i
		lead, t, _ := i.trimSpace(i.bytesOf(bs))
		ll := i.path.mkLen(lead)
		tl := i.path.mkLen(t)
		// result aliases the argument's array, as in Go
		if isZeroLen(tl) {
			return (*byteSlice)(nil)
		}
		if _, sym := tl.(*Sym); sym {
			if !i.branch(i.path.mkIntCmp(">", tl, int64(0))) {
				return (*byteSlice)(nil)
			}
		}
		_ = ll
		// the result is a fresh array holding the trimmed bytes (Go returns a
		// sub-slice of the argument; writes through it are not modelled)
		return i.newBytes(t)
	})
	reg("strings.TrimSuffix", func(fr *frame, a []value) value {
		i := fr.i
		if concreteStrs(a[0], a[1]) {
			return strings.TrimSuffix(a[0].(string), a[1].(string))
		}
		if i.branch(mkSuffixOf(a[1], a[0])) {
			return i.path.mkSubstr(a[0], int64(0), i.path.mkSub(i.path.mkLen(a[0]), i.path.mkLen(a[1])))
		}
		return a[0]
	})
	reg("strings.TrimPrefix", func(fr *frame, a []value) value {
		i := fr.i
		if concreteStrs(a[0], a[1]) {
			return strings.TrimPrefix(a[0].(string), a[1].(string))
		}
		if i.branch(mkPrefixOf(a[1], a[0])) {
			n := i.path.mkLen(a[1])
			return i.path.mkSubstr(a[0], n, i.path.mkSub(i.path.mkLen(a[0]), n))
		}
		return a[0]
	})
	reg("strings.TrimRight", func(fr *frame, a []value) value {
		if concreteStrs(a[0], a[1]) {
			return strings.TrimRight(a[0].(string), a[1].(string))
		}
		return fr.i.trimSet(a[0], cstr(a[1], "cutset"), false, true)
	})
	reg("strings.TrimLeft", func(fr *frame, a []value) value {
		if concreteStrs(a[0], a[1]) {
			return strings.TrimLeft(a[0].(string), a[1].(string))
		}
		return fr.i.trimSet(a[0], cstr(a[1], "cutset"), true, false)
	})
	reg("strings.Trim", func(fr *frame, a []value) value {
		if concreteStrs(a[0], a[1]) {
			return strings.Trim(a[0].(string), a[1].(string))
		}
		return fr.i.trimSet(a[0], cstr(a[1], "cutset"), true, true)
	})
	reg("strings.ToLower", func(fr *frame, a []value) value {
		if s, ok := a[0].(string); ok {
			return strings.ToLower(s)
		}
		return fr.i.toLowerASCII(a[0])
	})
	reg("strings.ToUpper", func(fr *frame, a []value) value {
		if s, ok := a[0].(string); ok {
			return strings.ToUpper(s)
		}
		unsup("strings.ToUpper on symbolic string")
		return nil
	})
	reg("strings.Replace", func(fr *frame, a []value) value {
		n := fr.i.concreteInt(a[3], "Replace count")
		return fr.i.replace(a[0], a[1], a[2], int(n))
	})
	reg("strings.ReplaceAll", func(fr *frame, a []value) value {
		return fr.i.replace(a[0], a[1], a[2], -1)
	})

	// ---- strconv
	reg("strconv.Atoi", func(fr *frame, a []value) value {
		v, ek := fr.i.parseInt(a[0], 64)
		if ek != "" {
			return tuple{v, fr.i.numError("Atoi", a[0], ek)}
		}
		return tuple{v, nilErr()}
	})
	reg("strconv.ParseInt", func(fr *frame, a []value) value {
		base := fr.i.concreteInt(a[1], "base")
		bits := fr.i.concreteInt(a[2], "bitSize")
		if s, ok := a[0].(string); ok {
			v, err := strconv.ParseInt(s, int(base), int(bits))
			if err != nil {
				kind := "syntax"
				if ne, ok := err.(*strconv.NumError); ok && ne.Err == strconv.ErrRange {
					kind = "range"
				}
				return tuple{v, fr.i.numError("ParseInt", a[0], kind)}
			}
			return tuple{v, nilErr()}
		}
		if base != 10 {
			unsup("ParseInt base %d on symbolic string", base)
		}
		if bits == 0 {
			bits = 64
		}
		v, ek := fr.i.parseInt(a[0], uint(bits))
		if ek != "" {
			return tuple{v, fr.i.numError("ParseInt", a[0], ek)}
		}
		return tuple{v, nilErr()}
	})
	reg("strconv.ParseUint", func(fr *frame, a []value) value {
		i := fr.i
		base := i.concreteInt(a[1], "base")
		bits := i.concreteInt(a[2], "bitSize")
		if s, ok := a[0].(string); ok {
			v, err := strconv.ParseUint(s, int(base), int(bits))
			if err != nil {
				kind := "syntax"
				if ne, ok := err.(*strconv.NumError); ok && ne.Err == strconv.ErrRange {
					kind = "range"
				}
				return tuple{int64(v), i.numError("ParseUint", a[0], kind)}
			}
			return tuple{int64(v), nilErr()}
		}
		if base != 10 {
			unsup("ParseUint base %d on symbolic string", base)
		}
		if bits == 0 {
			bits = 64
		}
		ss := a[0].(*Sym)
		if !i.branch(mkInRe(ss, digitsRe)) {
			return tuple{int64(0), i.numError("ParseUint", a[0], "syntax")}
		}
		_, max := typeRange(uint(bits), false)
		n := &Sym{sort: SInt, e: "(str.to_int " + ss.e + ")", lo: bigZero}
		maxS := &Sym{sort: SInt, e: max.String(), lo: max, hi: max}
		if !i.branch(i.path.mkIntCmp("<=", n, maxS)) {
			return tuple{maxS, i.numError("ParseUint", a[0], "range")}
		}
		return tuple{i.compact(&Sym{sort: SInt, e: n.e, lo: bigZero, hi: max}), nilErr()}
	})
	reg("strconv.Itoa", func(fr *frame, a []value) value { return fr.i.itoa(a[0]) })
	reg("strconv.FormatInt", func(fr *frame, a []value) value {
		base := fr.i.concreteInt(a[1], "base")
		if c, ok := a[0].(int64); ok {
			return strconv.FormatInt(c, int(base))
		}
		if base != 10 {
			unsup("FormatInt base %d symbolic", base)
		}
		return fr.i.itoa(a[0])
	})
	reg("strconv.ParseBool", func(fr *frame, a []value) value {
		if s, ok := a[0].(string); ok {
			b, err := strconv.ParseBool(s)
			if err != nil {
				return tuple{false, fr.i.numError("ParseBool", a[0], "syntax")}
			}
			return tuple{b, nilErr()}
		}
		i := fr.i
		for _, t := range []string{"1", "t", "T", "TRUE", "true", "True"} {
			if i.branch(mkStrEq(a[0], t)) {
				return tuple{true, nilErr()}
			}
		}
		for _, f := range []string{"0", "f", "F", "FALSE", "false", "False"} {
			if i.branch(mkStrEq(a[0], f)) {
				return tuple{false, nilErr()}
			}
		}
		return tuple{false, i.numError("ParseBool", a[0], "syntax")}
	})
	reg("strconv.Quote", func(fr *frame, a []value) value {
		if s, ok := a[0].(string); ok {
			return strconv.Quote(s)
		}
		fr.i.ex.noteApprox("strconv.Quote on symbolic string")
		return fr.i.nondetInternalString("quote")
	})

	// ---- fmt
	reg("fmt.Sprintf", func(fr *frame, a []value) value {
		args, _ := a[1].([]value)
		return fr.i.sprintf(fr, cstr(a[0], "Sprintf format"), args)
	})
	reg("fmt.Sprint", func(fr *frame, a []value) value {
		args, _ := a[0].([]value)
		var out value = ""
		for _, x := range args {
			out = mkConcat(out, fr.i.formatOne(fr, "%v", 'v', x))
		}
		return out
	})
	reg("fmt.Errorf", func(fr *frame, a []value) value {
		args, _ := a[1].([]value)
		format := cstr(a[0], "Errorf format")
		msg := fr.i.sprintf(fr, strings.ReplaceAll(format, "%w", "%v"), args)
		if strings.Contains(format, "%w") {
			for _, x := range args {
				if itf, ok := x.(iface); ok && itf.t != nil && hasMethod(fr.i.prog, itf.t, "Error") {
					t := fr.i.namedType("fmt", "wrapError")
					cell := value(structure{msg, itf})
					return iface{t: types.NewPointer(t), v: &cell}
				}
			}
		}
		return fr.i.newError(msg)
	})
	noop2 := func(fr *frame, a []value) value { return tuple{int64(0), nilErr()} }
	reg("fmt.Fprintf", func(fr *frame, a []value) value { return fr.i.fprint(fr, a[0], a[1], a[2]) })
	reg("fmt.Fprintln", func(fr *frame, a []value) value { return fr.i.fprint(fr, a[0], nil, a[1]) })
	reg("fmt.Fprint", func(fr *frame, a []value) value { return fr.i.fprint(fr, a[0], nil, a[1]) })
	reg("fmt.Printf", noop2)
	reg("fmt.Println", noop2)
	reg("fmt.Print", noop2)

	// ---- hashing
	reg("encoding/hex.EncodeToString", func(fr *frame, a []value) value {
		s := fr.i.strArg(a[0])
		if c, ok := s.(string); ok {
			return hex.EncodeToString([]byte(c))
		}
		if ss := s.(*Sym); ss.op == "rawhash" {
			return fr.i.hashHex(ss.a[0])
		}
		unsup("hex.EncodeToString on symbolic bytes")
		return nil
	})

	// ---- unicode (called by interpreted std code with concrete runes)
	reg("unicode.IsSpace", func(fr *frame, a []value) value {
		return isSpaceRune(rune(fr.i.concreteInt(a[0], "rune")))
	})
}

func isZeroLen(v value) bool {
	c, ok := v.(int64)
	return ok && c == 0
}

func (i *interpreter) hashHexConcrete(s string) string {
	h := sha256.Sum256([]byte(s))
	return hex.EncodeToString(h[:])
}

// fprint: writes to an io.Writer through its Write method; os.Stderr/Stdout
// (poison or *os.File) are dropped.
func (i *interpreter) fprint(fr *frame, w value, format value, argv value) value {
	args, _ := argv.([]value)
	itf, ok := w.(iface)
	if !ok || itf.t == nil || strings.HasSuffix(itf.t.String(), "os.File") {
		return tuple{int64(0), nilErr()}
	}
	if _, isPoison := itf.v.(poison); isPoison {
		return tuple{int64(0), nilErr()}
	}
	var s value
	if format != nil {
		s = i.sprintf(fr, cstr(format, "Fprintf format"), args)
	} else {
		s = ""
		for k, x := range args {
			if k > 0 {
				s = mkConcat(s, " ")
			}
			s = mkConcat(s, i.formatOne(fr, "%v", 'v', x))
		}
		if fr.fn.Name() == "Fprintln" {
			s = mkConcat(s, "\n")
		}
	}
	return i.callMethod(fr, itf, "Write", i.newBytes(s))
}

// toLowerASCII lowers A-Z; for symbolic strings bytes >= 0x80 are required to
// be absent (a bound, recorded as an assumption).
func (i *interpreter) toLowerASCII(s value) value {
	if c, ok := s.(string); ok {
		return strings.ToLower(c)
	}
	p := i.path
	ss := s.(*Sym)
	i.ex.noteAssumption("strings.ToLower/EqualFold on symbolic strings: ASCII only, length <= " + fmt.Sprint(i.ex.bound("tolower.len", 24)))
	maxLen := i.ex.bound("tolower.len", 24)
	p.pc = append(p.pc, "(str.in_re "+ss.e+" (re.* (re.range \"\\u{0}\" \"\\u{7f}\")))")
	switch c := p.mkIntCmp("<=", p.mkLen(ss), maxLen).(type) {
	case bool:
		if !c {
			panic(pathEnd{reason: "assume"})
		}
	case *Sym:
		if !i.branchAssume(c) {
			panic(pathEnd{reason: "assume"})
		}
	}
	r := p.freshVar("lower", SStr)
	p.pc = append(p.pc, "(= (str.len "+r.e+") (str.len "+ss.e+"))")
	for k := int64(0); k < maxLen; k++ {
		c := "(str.to_code (str.at " + ss.e + " " + smtInt(k) + "))"
		rc := "(str.to_code (str.at " + r.e + " " + smtInt(k) + "))"
		p.pc = append(p.pc, "(=> (< "+smtInt(k)+" (str.len "+ss.e+")) (= "+rc+" (ite (and (<= 65 "+c+") (<= "+c+" 90)) (+ "+c+" 32) "+c+")))")
	}
	return r
}

// lastIndex of a concrete separator in a symbolic string.
func (i *interpreter) lastIndex(s value, sep string) value {
	p := i.path
	if !i.branch(mkContains(s, sep)) {
		return int64(-1)
	}
	// s = a ++ sep ++ b with sep not occurring in (sep[1:] ++ b)
	a := p.freshVar("liA", SStr)
	b := p.freshVar("liB", SStr)
	p.pc = append(p.pc, "(= "+tStr(s)+" (str.++ "+a.e+" "+smtStr(sep)+" "+b.e+"))",
		"(not (str.contains (str.++ "+smtStr(sep[1:])+" "+b.e+") "+smtStr(sep)+"))")
	return p.mkLen(a)
}

// fields models strings.Fields for ASCII whitespace on symbolic strings.
func (i *interpreter) fields(s value) []value {
	p := i.path
	i.ex.noteAssumption("strings.Fields on symbolic strings: separators are ASCII white space; bytes >= 0x80 are field bytes")
	const ws = `(re.union (re.range "\u{9}" "\u{d}") (str.to_re " "))`
	const nonws = `(re.diff (re.range "\u{0}" "\u{ff}") ` + ws + `)`
	var out []value
	rest := s
	for {
		if len(out) > i.ex.Unwind {
			i.path.obls = append(i.path.obls, &Obligation{Kind: "unwind", Msg: "Fields: too many fields", Status: "undecided"})
			panic(pathEnd{reason: "unwind", detail: "fields"})
		}
		// rest = w ++ f ++ tail, w in ws*, f in nonws+ maximal
		if !i.branch(mkInRe(rest, "(re.++ (re.* "+ws+") "+nonws+" re.all)")) {
			break
		}
		w := p.freshVar("fw", SStr)
		f := p.freshVar("ff", SStr)
		t := p.freshVar("ft", SStr)
		p.pc = append(p.pc, "(= "+tStr(rest)+" (str.++ "+w.e+" "+f.e+" "+t.e+"))",
			"(str.in_re "+w.e+" (re.* "+ws+"))",
			"(str.in_re "+f.e+" (re.+ "+nonws+"))",
			"(str.in_re "+t.e+" (re.union (str.to_re \"\") (re.++ "+ws+" re.all)))")
		out = append(out, f)
		rest = t
	}
	return out
}

// trimSet models Trim/TrimLeft/TrimRight with an ASCII cutset.
func (i *interpreter) trimSet(s value, cutset string, left, right bool) value {
	p := i.path
	for _, c := range cutset {
		if c >= 0x80 {
			unsup("Trim with non-ASCII cutset on symbolic string")
		}
	}
	if cutset == "" {
		return s
	}
	if r, ok := i.trimSetSyntactic(s, cutset, left, right); ok {
		return r
	}
	var alts []string
	for k := 0; k < len(cutset); k++ {
		alts = append(alts, "(str.to_re "+smtStr(cutset[k:k+1])+")")
	}
	set := alts[0]
	if len(alts) > 1 {
		set = "(re.union " + strings.Join(alts, " ") + ")"
	}
	a := p.freshVar("trL", SStr)
	t := p.freshVar("trC", SStr)
	b := p.freshVar("trR", SStr)
	p.pc = append(p.pc, "(= "+tStr(s)+" (str.++ "+a.e+" "+t.e+" "+b.e+"))")
	if left {
		p.pc = append(p.pc, "(str.in_re "+a.e+" (re.* "+set+"))", "(not (str.in_re "+t.e+" (re.++ "+set+" re.all)))")
	} else {
		p.pc = append(p.pc, "(= "+a.e+" \"\")")
	}
	if right {
		p.pc = append(p.pc, "(str.in_re "+b.e+" (re.* "+set+"))", "(not (str.in_re "+t.e+" (re.++ re.all "+set+")))")
	} else {
		p.pc = append(p.pc, "(= "+b.e+" \"\")")
	}
	return t
}

// replace models strings.Replace(s, old, new, n) for concrete non-empty old.
func (i *interpreter) replace(s, old, nw value, n int) value {
	if concreteStrs(s, old, nw) {
		return strings.Replace(s.(string), old.(string), nw.(string), n)
	}
	o := cstr(old, "Replace old")
	if o == "" {
		unsup("Replace with empty old on symbolic string")
	}
	if n == 0 {
		return s
	}
	parts := i.split(s, o, func() int {
		if n < 0 {
			return -1
		}
		return n + 1
	}())
	var r value = ""
	for k, part := range parts {
		if k > 0 {
			r = mkConcat(r, nw)
		}
		r = mkConcat(r, part)
	}
	return i.compact(r)
}

// trimSetSyntactic trims on the segment list when the facts decide it: a
// concrete segment is trimmed natively; a symbolic segment whose alphabet is
// disjoint from the cutset stops the trimming if it is provably non-empty (or
// if what lies beyond it cannot be trimmed either).
func (i *interpreter) trimSetSyntactic(s value, cutset string, left, right bool) (value, bool) {
	p := i.path
	segs := append([]interface{}(nil), segmentsOf(s)...)
	disjoint := func(sg *Sym) bool {
		a, ok := p.alpha[sg.e]
		if !ok {
			for k := 0; k < len(cutset); k++ {
				if !p.noContain(sg.e, cutset[k:k+1]) {
					return false
				}
			}
			return true
		}
		for k := 0; k < len(cutset); k++ {
			if a[cutset[k]] {
				return false
			}
		}
		return true
	}
	nonEmpty := func(sg *Sym) bool {
		lo, _ := p.ivOf(p.mkLen(sg))
		return lo != nil && lo.Sign() > 0
	}
	if right {
		for {
			if len(segs) == 0 {
				break
			}
			last := segs[len(segs)-1]
			if c, ok := last.(string); ok {
				t := strings.TrimRight(c, cutset)
				if t != "" {
					segs[len(segs)-1] = t
					break
				}
				segs = segs[:len(segs)-1]
				continue
			}
			sg := last.(*Sym)
			if !disjoint(sg) {
				return nil, false
			}
			if nonEmpty(sg) {
				break
			}
			// possibly empty: fine if the segment before it cannot be trimmed either
			if len(segs) >= 2 {
				if c, ok := segs[len(segs)-2].(string); ok && c != "" && !strings.ContainsRune(cutset, rune(c[len(c)-1])) {
					break
				}
			}
			return nil, false
		}
	}
	if left {
		for {
			if len(segs) == 0 {
				break
			}
			first := segs[0]
			if c, ok := first.(string); ok {
				t := strings.TrimLeft(c, cutset)
				if t != "" {
					segs[0] = t
					break
				}
				segs = segs[1:]
				continue
			}
			sg := first.(*Sym)
			if !disjoint(sg) {
				return nil, false
			}
			if nonEmpty(sg) {
				break
			}
			if len(segs) >= 2 {
				if c, ok := segs[1].(string); ok && c != "" && !strings.ContainsRune(cutset, rune(c[0])) {
					break
				}
			}
			return nil, false
		}
	}
	return concatOf(segs), true
}

// namedTypeOrNil: as namedType, nil if the package or type is not loaded.
func (i *interpreter) namedTypeOrNil(pkgPath, name string) types.Type {
	pkg := i.prog.ImportedPackage(pkgPath)
	if pkg == nil {
		return nil
	}
	m := pkg.Members[name]
	if m == nil {
		return nil
	}
	return m.Type()
}
