package sx

import (
	"fmt"
	"go/types"
	"os"
	"regexp"
	"runtime/debug"
	"sort"
	"strings"
	"sync"
	"sync/atomic"
	"time"

	"golang.org/x/tools/go/ssa"
)

type Explorer struct {
	Prog        *ssa.Program
	Hub         *SolverHub
	Harness     *ssa.Function
	HarnessName string
	Workers     int
	Unwind      int
	MaxSteps    int64
	MaxPaths    int
	TimeoutMs   int
	Seed        int
	Tier        string
	ReverseMaps bool
	Trace       bool
	Redirects   map[string]string // function name -> model function (full name)
	SkipInit    func(path string) bool
	DenyPkg     func(path string) bool
	Known       map[string]bool // active known-finding region ids
	Bounds      map[string]int64
	Deadline    time.Time
	MaxUnknown  int
	Fixed       map[string]string // input name#k -> SMT literal (debugging)

	mu          sync.Mutex
	work        [][]int
	active      int
	cond        *sync.Cond
	Results     []*PathResult
	covered     map[string]bool
	wraps       int64
	states      int64
	transitions int64
	pathsRun    int64
	redirCache  sync.Map
	fnByName    map[string]*ssa.Function
	Funcs       sync.Map // *ssa.Function -> true : functions entered
	truncated   bool
	aborted     bool
	witnessN    map[string]int
	Approx      map[string]int
	Assumptions map[string]int
}

type PathResult struct {
	ID        string
	Ended     string
	Detail    string
	Covers    []string
	Obls      []*Obligation
	Steps     int64
	Branches  int
	Witness   map[string]ModelVal // model of the final path condition (sampled)
	Observes  []ObservedVal
	InputsOrd []string
	Bounds    map[string]int64
}

type ObservedVal struct {
	Label string `json:"label"`
	Value string `json:"value"` // engine-side value under the witness model
}

func (ex *Explorer) noteWrap() { atomic.AddInt64(&ex.wraps, 1) }

func (ex *Explorer) skipInit(path string) bool {
	if ex.SkipInit != nil {
		return ex.SkipInit(path)
	}
	return false
}

func (ex *Explorer) denyPkg(path string) bool {
	if ex.DenyPkg != nil {
		return ex.DenyPkg(path)
	}
	return false
}

func (ex *Explorer) buildFnIndex() {
	ex.fnByName = map[string]*ssa.Function{}
	for _, pkg := range ex.Prog.AllPackages() {
		for _, m := range pkg.Members {
			switch m := m.(type) {
			case *ssa.Function:
				ex.fnByName[m.String()] = m
			case *ssa.Type:
				for _, T := range []types.Type{m.Type(), types.NewPointer(m.Type())} {
					ms := ex.Prog.MethodSets.MethodSet(T)
					for k := 0; k < ms.Len(); k++ {
						if f := ex.Prog.MethodValue(ms.At(k)); f != nil {
							if _, dup := ex.fnByName[f.String()]; !dup {
								ex.fnByName[f.String()] = f
							}
						}
					}
				}
			}
		}
	}
}

func (ex *Explorer) FuncByName(name string) *ssa.Function { return ex.fnByName[name] }

func (ex *Explorer) redirect(name string) *ssa.Function {
	if ex.Redirects == nil {
		return nil
	}
	t, ok := ex.Redirects[name]
	if !ok {
		return nil
	}
	f := ex.fnByName[t]
	if f == nil {
		unsup("redirect target %s not found", t)
	}
	return f
}

// Run explores all paths of the harness.
func (ex *Explorer) Run() {
	ex.cond = sync.NewCond(&ex.mu)
	ex.covered = map[string]bool{}
	ex.work = [][]int{nil}
	if ex.fnByName == nil {
		ex.buildFnIndex()
	}
	var wg sync.WaitGroup
	stopProgress := make(chan bool)
	go func() {
		tk := time.NewTicker(10 * time.Second)
		defer tk.Stop()
		for {
			select {
			case <-stopProgress:
				return
			case <-tk.C:
				ex.mu.Lock()
				fmt.Fprintf(os.Stderr, "[gosmt] %s: paths done=%d queued=%d active=%d solvers=%v\n", ex.HarnessName, len(ex.Results), len(ex.work), ex.active, ex.Hub.Stats())
				ex.mu.Unlock()
			}
		}
	}()
	defer close(stopProgress)
	for w := 0; w < ex.Workers; w++ {
		wg.Add(1)
		go func(w int) {
			defer wg.Done()
			ss := &solverSet{procs: map[string]*solverProc{}, timeoutMs: ex.TimeoutMs, seed: ex.Seed}
			defer ss.close()
			for {
				ex.mu.Lock()
				for len(ex.work) == 0 && ex.active > 0 {
					ex.cond.Wait()
				}
				if len(ex.work) == 0 && ex.active == 0 {
					ex.mu.Unlock()
					ex.cond.Broadcast()
					return
				}
				// depth-first: take the most recently queued prefix
				prefix := ex.work[len(ex.work)-1]
				ex.work = ex.work[:len(ex.work)-1]
				if (ex.MaxPaths > 0 && int(ex.pathsRun) >= ex.MaxPaths) || (!ex.Deadline.IsZero() && time.Now().After(ex.Deadline)) {
					ex.truncated = true
					ex.mu.Unlock()
					continue
				}
				ex.pathsRun++
				ex.active++
				ex.mu.Unlock()

				res := ex.runPath(prefix, ss)
				if res.Ended == "unsupported" || res.Ended == "engine-error" {
					ex.mu.Lock()
					ex.work = nil
					ex.aborted = true
					ex.mu.Unlock()
				}

				ex.mu.Lock()
				ex.Results = append(ex.Results, res)
				ex.active--
				ex.mu.Unlock()
				ex.cond.Broadcast()
			}
		}(w)
	}
	wg.Wait()
	sort.Slice(ex.Results, func(a, b int) bool { return ex.Results[a].ID < ex.Results[b].ID })
}

func (ex *Explorer) Truncated() bool { return ex.truncated }
func (ex *Explorer) States() int64   { return ex.states }
func (ex *Explorer) Transitions() int64 {
	return ex.transitions
}
func (ex *Explorer) Wraps() int64 { return ex.wraps }

func (ex *Explorer) enqueue(prefix []int) {
	cp := append([]int(nil), prefix...)
	ex.mu.Lock()
	if ex.aborted {
		ex.mu.Unlock()
		return
	}
	ex.work = append(ex.work, cp)
	ex.states++
	ex.mu.Unlock()
	ex.cond.Signal()
}

func (ex *Explorer) runPath(prefix []int, ss *solverSet) (res *PathResult) {
	p := &Path{ex: ex, prefix: prefix, declSet: map[string]bool{}, inputSort: map[string]Sort{},
		counters: map[string]int{}, varIv: map[string]ival{}, bounds: map[string]int64{}, memo: map[string]interface{}{}, facts: map[string]bool{}, alpha: map[string]*[256]bool{}}
	i := &interpreter{prog: ex.Prog, ex: ex, path: p, ss: ss,
		globals: map[*ssa.Global]*value{}, pkgInit: map[*ssa.Package]int{},
		sizes: &types.StdSizes{WordSize: 8, MaxAlign: 8}, trace: ex.Trace,
		overrides: map[string]value{}}
	if rt := ex.Prog.ImportedPackage("runtime"); rt != nil {
		if t := rt.Type("errorString"); t != nil {
			i.runtimeErrorString = t.Object().Type()
		}
	}
	p.interp = i
	i.sched = newScheduler(i)
	res = &PathResult{}
	defer func() {
		r := recover()
		// the path is over: undecided queries of the reporting below (panic
		// models, witness sampling) must not try to end it once more
		p.ending = true
		i.sched.killAll()
		if gp, ok := r.(gorPanic); ok {
			r = gp.tp // an unrecovered panic in a spawned goroutine ends the program, too
		}
		switch r := r.(type) {
		case nil:
			p.ended = "return"
		case pathEnd:
			p.ended = r.reason
			res.Detail = r.detail
			if r.reason == "deadlock" && i.deadlockMsg != "" {
				p.ended = "panic"
				i.reportPanic(targetPanic{msg: "deadlock: " + i.deadlockMsg + " (" + r.detail + ")"})
			}
		case targetPanic:
			p.ended = "panic"
			res.Detail = r.String()
			i.reportPanic(r)
		case unsupported:
			p.ended = "unsupported"
			res.Detail = r.msg
		default:
			p.ended = "engine-error"
			res.Detail = fmt.Sprintf("%v\n%s", r, debug.Stack())
		}
		atomic.AddInt64(&ex.transitions, p.steps)
		atomic.AddInt64(&ex.states, 1)
		res.ID = p.id()
		res.Ended = p.ended
		res.Covers = p.covers
		res.Obls = p.obls
		res.Steps = p.steps
		res.Branches = p.symBranch
		res.InputsOrd = p.inputs
		res.Bounds = p.bounds
		for _, o := range p.obls {
			o.Path = res.ID
			o.Harness = ex.HarnessName
		}
		if p.ended == "return" || p.ended == "exit" || p.ended == "done" {
			i.sampleWitness(res)
		}
	}()
	callSSA(i, nil, 0, ex.Harness, nil, nil)
	i.sched.drain()
	return
}

// ---------------------------------------------------------------- branching

func (i *interpreter) solve(extra []string, vals []string) queryResult {
	return i.solveMode(true, extra, vals)
}

// solveFeas: feasibility query without the heavy (lazy) constraints; an
// over-approximation of the path condition, so "unsat" is still conclusive.
func (i *interpreter) solveFeas(extra []string) queryResult {
	return i.solveMode(false, extra, nil)
}

func (i *interpreter) solveMode(full bool, extra []string, vals []string) queryResult {
	q := i.path.queryText(full, extra...)
	hasStr := i.path.usesStr || strings.Contains(q, "String") || strings.Contains(q, "str.")
	r := i.ex.Hub.solve(i.ss, q, vals, hasStr)
	if r.res != "sat" && r.res != "unsat" && strings.Contains(q, "(str.to_int |") {
		if hr, ok := i.toIntHint(q, vals); ok {
			r = hr
		}
	}
	if r.res != "sat" && r.res != "unsat" {
		i.path.unknowns++
		if i.path.unknowns > i.ex.MaxUnknown && !i.path.ending {
			i.path.ending = true
			i.path.obls = append(i.path.obls, &Obligation{Kind: "budget", Msg: "path abandoned: too many undecided solver queries", Status: "undecided"})
			panic(pathEnd{reason: "budget", detail: "solver unknown budget"})
		}
	}
	return r
}

func (i *interpreter) branchAt(c value, instr ssa.Instruction) bool { return i.branch(c) }

// branch decides a (possibly symbolic) condition, forking when both sides are feasible.
func (i *interpreter) branch(c value) bool {
	switch c := c.(type) {
	case bool:
		return c
	case poison:
		unsup("branch on poison (%s)", c.why)
	}
	cs := c.(*Sym)
	p := i.path
	p.symBranch++
	var d int
	if p.pos < len(p.prefix) {
		d = p.prefix[p.pos]
		p.pos++
	} else if cs.heavy {
		// no feasibility query for heavy conditions: both sides are explored
		p.pos++
		d = 1
		i.ex.enqueue(append(append([]int(nil), p.taken...), 0))
	} else {
		p.pos++
		tq := i.solveFeas([]string{cs.e})
		if tq.res == "unsat" {
			d = 0
		} else {
			fq := i.solveFeas([]string{"(not " + cs.e + ")"})
			if fq.res == "unsat" {
				d = 1
			} else {
				// both feasible (or unknown): follow true, queue false
				d = 1
				i.ex.enqueue(append(append([]int(nil), p.taken...), 0))
			}
		}
	}
	p.taken = append(p.taken, d)
	if cs.heavy {
		if d == 1 {
			p.lazy = append(p.lazy, cs.e)
			return true
		}
		p.lazy = append(p.lazy, "(not "+cs.e+")")
		return false
	}
	if d == 1 {
		p.assume(cs)
		return true
	}
	p.assume(mkNot(cs))
	return false
}

// choose forks over n alternatives (concretising a nondeterministic choice).
func (i *interpreter) choose(n int) int {
	if n <= 1 {
		return 0
	}
	p := i.path
	var d int
	if p.pos < len(p.prefix) {
		d = p.prefix[p.pos]
		p.pos++
	} else {
		p.pos++
		d = 0
		for k := n - 1; k >= 1; k-- {
			i.ex.enqueue(append(append([]int(nil), p.taken...), k))
		}
	}
	p.taken = append(p.taken, d)
	return d
}

// ---------------------------------------------------------------- obligations

func (i *interpreter) activeRegions() (ids []string, conds []string) {
	for _, r := range i.path.regions() {
		ids = append(ids, r.id)
		conds = append(conds, r.cond)
	}
	return
}

type region struct {
	id   string
	cond string // SMT Bool text ("true" for a concrete true)
}

func (p *Path) regions() []region { return p.regs }

func (p *Path) addRegion(id string, c value) {
	p.regs = append(p.regs, region{id: id, cond: tBool(c)})
}

// checkObligation decides "pc => c" and records the outcome. Known-finding
// regions registered by the harness split a violation into known and new.
func (i *interpreter) checkObligation(kind, msg string, c value, pos string) {
	p := i.path
	ob := &Obligation{Kind: kind, Msg: msg, Pos: pos}
	p.obls = append(p.obls, ob)
	neg := tBool(mkNot(c))
	if b, ok := c.(bool); ok && b {
		ob.Status = "holds"
		return
	}
	t0 := time.Now()
	defer func() { ob.SolverS = time.Since(t0).Seconds() }()
	ids, conds := i.activeRegions()
	extra := []string{neg}
	for _, rc := range conds {
		extra = append(extra, "(not "+rc+")")
	}
	// stage 1 without the lazily kept heavy/class constraints: "unsat" there is
	// conclusive (fewer constraints), and far cheaper; stage 2 with everything
	r := i.solveMode(false, extra, nil)
	if r.res != "unsat" {
		r = i.solve(extra, p.inputTerms())
	}
	switch r.res {
	case "unsat":
		ob.Status = "holds"
	case "sat":
		ob.Status = "violated"
		ob.Model = i.decodeModel(r.model)
	default:
		ob.Status = "undecided"
	}
	// known regions: report each that is hit
	for k, rc := range conds {
		kr := i.solve([]string{neg, rc}, p.inputTerms())
		if kr.res == "sat" {
			ko := &Obligation{Kind: kind, Msg: msg, Pos: pos, Status: "known", Known: ids[k], Model: i.decodeModel(kr.model)}
			p.obls = append(p.obls, ko)
		}
	}
}

func (i *interpreter) decodeModel(m map[string]string) map[string]ModelVal {
	p := i.path
	out := map[string]ModelVal{}
	for _, name := range p.inputs {
		txt, ok := m[name]
		if !ok {
			continue
		}
		switch p.inputSort[name] {
		case SInt:
			v, _ := decodeSMTInt(txt)
			out[name] = ModelVal{"int", v}
		case SBool:
			out[name] = ModelVal{"bool", txt}
		case SStr:
			s, _ := decodeSMTString(txt)
			if a, ok := p.alpha["|"+name+"|"]; ok {
				// alphabet constraints of long strings are not asserted: project the model
				var first byte
				for b := 0; b < 256; b++ {
					if a[b] {
						first = byte(b)
						break
					}
				}
				bs := []byte(s)
				for k := range bs {
					if !a[bs[k]] {
						bs[k] = first
					}
				}
				s = string(bs)
			}
			if p.facts["class|asciiws||"+name+"|"] {
				// model projection for class strings whose constraint was not asserted
				b := []byte(s)
				for k := range b {
					if !(b[k] >= 9 && b[k] <= 13 || b[k] == ' ') {
						b[k] = ' '
					}
				}
				s = string(b)
			}
			out[name] = ModelVal{"str", fmt.Sprintf("%x", s)}
		}
	}
	return out
}

func (i *interpreter) reportPanic(tp targetPanic) {
	p := i.path
	ob := &Obligation{Kind: "panic", Msg: "panic: " + tp.String(), Status: "violated"}
	ids, conds := i.activeRegions()
	var extra []string
	for _, rc := range conds {
		extra = append(extra, "(not "+rc+")")
	}
	r := i.solve(extra, p.inputTerms())
	switch r.res {
	case "sat":
		ob.Model = i.decodeModel(r.model)
		p.obls = append(p.obls, ob)
	case "unsat":
		// only reachable inside known regions
	default:
		ob.Status = "undecided"
		p.obls = append(p.obls, ob)
	}
	for k, rc := range conds {
		kr := i.solve([]string{rc}, p.inputTerms())
		if kr.res == "sat" {
			p.obls = append(p.obls, &Obligation{Kind: "panic", Msg: ob.Msg, Status: "known", Known: ids[k], Model: i.decodeModel(kr.model)})
		}
	}
}

// sampleWitness asks for a model of the complete path condition so that the
// path can be replayed natively (translation validation of the encoder).
func (i *interpreter) sampleWitness(res *PathResult) {
	p := i.path
	if i.crashed {
		return // a kill -9 in mid-call cannot be replayed natively
	}
	if !i.ex.wantWitness(p) {
		return
	}
	terms := append([]string(nil), p.inputTerms()...)
	var extra []string
	obsName := map[int]string{}
	for k, o := range p.observes {
		if v, ok := o.v.(*Sym); ok {
			n := p.freshVar("obs", v.sort)
			extra = append(extra, "(= "+n.e+" "+v.e+")")
			terms = append(terms, n.e)
			obsName[k] = n.e
		}
	}
	r := i.solve(extra, terms)
	if r.res != "sat" {
		return
	}
	res.Witness = i.decodeModel(r.model)
	for k, o := range p.observes {
		ov := ObservedVal{Label: o.label}
		switch v := o.v.(type) {
		case *Sym:
			txt := r.model[strings.Trim(obsName[k], "|")]
			switch v.sort {
			case SInt:
				ov.Value, _ = decodeSMTInt(txt)
			case SBool:
				ov.Value = txt
			case SStr:
				s, _ := decodeSMTString(txt)
				ov.Value = fmt.Sprintf("%x", s)
			}
		case string:
			ov.Value = fmt.Sprintf("%x", v)
		case int64:
			ov.Value = fmt.Sprint(v)
		case bool:
			ov.Value = fmt.Sprint(v)
		default:
			ov.Value = "?"
		}
		res.Observes = append(res.Observes, ov)
	}
}

// wantWitness: sample a witness for paths that reach a cover set not yet witnessed.
func (ex *Explorer) wantWitness(p *Path) bool {
	key := strings.Join(p.covers, ",")
	ex.mu.Lock()
	defer ex.mu.Unlock()
	if ex.witnessN == nil {
		ex.witnessN = map[string]int{}
	}
	per, total := 3, 24
	if ex.Tier == "thorough" {
		per, total = 6, 40
	}
	if ex.witnessN[key] >= per || ex.witnessN["\x00total"] >= total {
		return false
	}
	ex.witnessN[key]++
	ex.witnessN["\x00total"]++
	return true
}

func debugf(format string, args ...interface{}) {
	if os.Getenv("GOSMT_DEBUG") != "" {
		fmt.Fprintf(os.Stderr, format+"\n", args...)
	}
}

var toIntVarRe = regexp.MustCompile(`\(str\.to_int (\|[^|]+\|)\)`)

// toIntHint: model search for queries that mix str.to_int of an input with
// wrap-around arithmetic (out of reach of the string solvers as one query):
// (1) replace str.to_int(X) by an integer unknown and let the solver pick it,
// (2) fix X to the decimal rendering of that value and re-solve the original
// query. Only a "sat" of step 2 is used, so the hint cannot create false results.
func (i *interpreter) toIntHint(q string, vals []string) (queryResult, bool) {
	vars := map[string]string{}
	for _, m := range toIntVarRe.FindAllStringSubmatch(q, -1) {
		vars[m[1]] = "|toint!" + strings.Trim(m[1], "|") + "|"
	}
	if len(vars) == 0 || len(vars) > 3 {
		return queryResult{}, false
	}
	abs := q
	var decl, names []string
	for x, n := range vars {
		abs = strings.ReplaceAll(abs, "(str.to_int "+x+")", n)
		decl = append(decl, "(declare-const "+n+" Int)\n(assert (>= "+n+" 0))\n")
		names = append(names, n)
	}
	abs = strings.Join(decl, "") + abs
	r1 := i.ex.Hub.solve(i.ss, abs, names, true)
	if r1.res != "sat" {
		return queryResult{}, false
	}
	fixed := q
	for x, n := range vars {
		v, ok := r1.model[strings.Trim(n, "|")]
		if !ok {
			return queryResult{}, false
		}
		dec, ok := decodeSMTInt(v)
		if !ok || strings.HasPrefix(dec, "-") {
			return queryResult{}, false
		}
		fixed += "(assert (= " + x + " \"" + dec + "\"))\n"
	}
	r2 := i.ex.Hub.solve(i.ss, fixed, vals, true)
	if r2.res == "sat" {
		return r2, true
	}
	return queryResult{}, false
}
