package sx

// Solver bridge: persistent cvc5 / z3 / z3-new processes spoken to in SMT-LIB2
// text, push/pop per query, any "(error" line makes the answer inconclusive.

import (
	"bufio"
	"fmt"
	"io"
	"os"
	"os/exec"
	"strconv"
	"strings"
	"sync"
	"sync/atomic"
	"time"
)

type SolverStats struct {
	Queries, Sat, Unsat, Unknown int
	Seconds                      float64
}

type solverProc struct {
	kind    string
	cmd     *exec.Cmd
	in      io.WriteCloser
	out     *bufio.Reader
	lines   chan string
	dead    bool
	timeout int // ms per check configured at start
}

func startSolver(kind string, timeoutMs int, seed int) (*solverProc, error) {
	var cmd *exec.Cmd
	switch kind {
	case "cvc5":
		cmd = exec.Command("cvc5", "--incremental", "--strings-exp", "--produce-models", "--lang", "smt2",
			fmt.Sprintf("--tlimit-per=%d", timeoutMs), fmt.Sprintf("--seed=%d", seed))
	case "z3":
		cmd = exec.Command("z3", "-in", fmt.Sprintf("-t:%d", timeoutMs))
	case "z3-new":
		cmd = exec.Command("z3-new", "-in", fmt.Sprintf("-t:%d", timeoutMs))
	default:
		return nil, fmt.Errorf("unknown solver %s", kind)
	}
	in, err := cmd.StdinPipe()
	if err != nil {
		return nil, err
	}
	outp, err := cmd.StdoutPipe()
	if err != nil {
		return nil, err
	}
	cmd.Stderr = nil
	if err := cmd.Start(); err != nil {
		return nil, err
	}
	s := &solverProc{kind: kind, cmd: cmd, in: in, out: bufio.NewReaderSize(outp, 1<<20), timeout: timeoutMs}
	s.lines = make(chan string, 1024)
	go func() {
		for {
			line, err := s.out.ReadString('\n')
			if line != "" {
				s.lines <- strings.TrimRight(line, "\r\n")
			}
			if err != nil {
				close(s.lines)
				return
			}
		}
	}()
	if kind == "cvc5" {
		io.WriteString(in, "(set-logic ALL)\n")
	} else {
		io.WriteString(in, fmt.Sprintf("(set-option :random-seed %d)\n", seed))
	}
	return s, nil
}

func (s *solverProc) kill() {
	if s.dead {
		return
	}
	s.dead = true
	s.in.Close()
	s.cmd.Process.Kill()
	go s.cmd.Wait()
}

// readUntil reads lines until the marker line; returns the lines before it.
func (s *solverProc) readUntil(marker string, deadline time.Duration) ([]string, bool) {
	var got []string
	timer := time.NewTimer(deadline)
	defer timer.Stop()
	for {
		select {
		case line, ok := <-s.lines:
			if !ok {
				return got, false
			}
			l := strings.Trim(line, "\"")
			if l == marker {
				return got, true
			}
			got = append(got, line)
		case <-timer.C:
			return got, false
		}
	}
}

// check runs one query; vals are terms for get-value when sat.
func (s *solverProc) check(query string, vals []string) (res string, model map[string]string) {
	if s.dead {
		return "unknown", nil
	}
	var b strings.Builder
	b.WriteString("(push 1)\n")
	b.WriteString(query)
	b.WriteString("(check-sat)\n(echo \"@@CS\")\n")
	if _, err := io.WriteString(s.in, b.String()); err != nil {
		s.kill()
		return "unknown", nil
	}
	hard := time.Duration(s.timeout)*time.Millisecond*2 + 5*time.Second
	lines, ok := s.readUntil("@@CS", hard)
	if !ok {
		s.kill()
		return "unknown", nil
	}
	res = "unknown"
	for _, l := range lines {
		if strings.Contains(l, "(error") {
			res = "error"
			break
		}
		switch strings.TrimSpace(l) {
		case "sat":
			res = "sat"
		case "unsat":
			res = "unsat"
		case "unknown", "timeout":
			res = "unknown"
		}
	}
	if res == "sat" && len(vals) > 0 {
		io.WriteString(s.in, "(get-value ("+strings.Join(vals, " ")+"))\n(echo \"@@GV\")\n")
		lines, ok = s.readUntil("@@GV", hard)
		if !ok {
			s.kill()
			return "unknown", nil
		}
		txt := strings.Join(lines, "\n")
		if strings.Contains(txt, "(error") {
			res = "error"
		} else {
			model = parseModel(txt)
		}
	}
	io.WriteString(s.in, "(pop 1)\n")
	if res == "error" {
		res = "unknown"
	}
	return
}

// parseModel parses ((t1 v1) (t2 v2) ...) into term-text -> value-text.
func parseModel(txt string) map[string]string {
	m := map[string]string{}
	toks := sexpTokens(txt)
	pos := 0
	var parse func() interface{}
	parse = func() interface{} {
		if pos >= len(toks) {
			return nil
		}
		t := toks[pos]
		pos++
		if t == "(" {
			var l []interface{}
			for pos < len(toks) && toks[pos] != ")" {
				l = append(l, parse())
			}
			pos++
			return l
		}
		return t
	}
	top, _ := parse().([]interface{})
	for _, e := range top {
		pair, ok := e.([]interface{})
		if !ok || len(pair) != 2 {
			continue
		}
		k := sexpText(pair[0])
		if strings.HasPrefix(k, "|") && strings.HasSuffix(k, "|") {
			k = k[1 : len(k)-1]
		}
		m[k] = sexpText(pair[1])
	}
	return m
}

func sexpText(x interface{}) string {
	switch x := x.(type) {
	case string:
		return x
	case []interface{}:
		parts := make([]string, len(x))
		for i, e := range x {
			parts[i] = sexpText(e)
		}
		return "(" + strings.Join(parts, " ") + ")"
	}
	return ""
}

func sexpTokens(s string) []string {
	var toks []string
	i := 0
	for i < len(s) {
		c := s[i]
		switch {
		case c == '(' || c == ')':
			toks = append(toks, string(c))
			i++
		case c == ' ' || c == '\n' || c == '\t' || c == '\r':
			i++
		case c == '"':
			j := i + 1
			for j < len(s) {
				if s[j] == '"' {
					if j+1 < len(s) && s[j+1] == '"' {
						j += 2
						continue
					}
					break
				}
				j++
			}
			toks = append(toks, s[i:j+1])
			i = j + 1
		case c == '|':
			j := strings.IndexByte(s[i+1:], '|')
			toks = append(toks, s[i:i+j+2])
			i += j + 2
		default:
			j := i
			for j < len(s) && !strings.ContainsRune("() \n\t\r", rune(s[j])) {
				j++
			}
			toks = append(toks, s[i:j])
			i = j
		}
	}
	return toks
}

// decodeSMTString turns a model string literal into bytes; ok=false when a
// character does not fit a byte.
func decodeSMTString(lit string) (string, bool) {
	if len(lit) < 2 || lit[0] != '"' {
		return "", false
	}
	body := lit[1 : len(lit)-1]
	var out []byte
	ok := true
	for i := 0; i < len(body); {
		c := body[i]
		if c == '"' && i+1 < len(body) && body[i+1] == '"' {
			out = append(out, '"')
			i += 2
			continue
		}
		if c == '\\' && i+1 < len(body) && body[i+1] == 'u' {
			// \u{X..} or \uXXXX
			if i+2 < len(body) && body[i+2] == '{' {
				j := strings.IndexByte(body[i:], '}')
				if j > 0 {
					n, err := strconv.ParseInt(body[i+3:i+j], 16, 64)
					if err == nil {
						if n > 255 {
							ok = false
							n = '?'
						}
						out = append(out, byte(n))
						i += j + 1
						continue
					}
				}
			} else if i+6 <= len(body) {
				n, err := strconv.ParseInt(body[i+2:i+6], 16, 64)
				if err == nil {
					if n > 255 {
						ok = false
						n = '?'
					}
					out = append(out, byte(n))
					i += 6
					continue
				}
			}
		}
		out = append(out, c)
		i++
	}
	return string(out), ok
}

func decodeSMTInt(txt string) (string, bool) {
	t := strings.TrimSpace(txt)
	if strings.HasPrefix(t, "(-") {
		t = strings.TrimSpace(strings.TrimSuffix(strings.TrimPrefix(t, "(-"), ")"))
		return "-" + t, true
	}
	if _, err := strconv.ParseInt(t, 10, 64); err != nil {
		// may be out of int64 range but still a numeral
		for _, c := range t {
			if c < '0' || c > '9' {
				return "", false
			}
		}
	}
	return t, true
}

// ---------------------------------------------------------------- portfolio

var dumpN int64

type queryResult struct {
	res    string
	model  map[string]string
	solver string
}

type solverSet struct {
	procs     map[string]*solverProc
	timeoutMs int
	seed      int
}

func (ss *solverSet) get(kind string) *solverProc {
	if p, ok := ss.procs[kind]; ok && !p.dead {
		return p
	}
	p, err := startSolver(kind, ss.timeoutMs, ss.seed)
	if err != nil {
		return nil
	}
	ss.procs[kind] = p
	return p
}

func (ss *solverSet) close() {
	for _, p := range ss.procs {
		p.kill()
	}
}

type SolverHub struct {
	mu    sync.Mutex
	cache map[string]queryResult
	stats map[string]*SolverStats
	Order struct{ Str, Int []string }
}

func NewSolverHub() *SolverHub {
	h := &SolverHub{cache: map[string]queryResult{}, stats: map[string]*SolverStats{}}
	h.Order.Str = []string{"cvc5"}
	h.Order.Int = []string{"z3", "cvc5", "z3-new"}
	return h
}

func (h *SolverHub) record(kind, res string, d time.Duration) {
	h.mu.Lock()
	defer h.mu.Unlock()
	st := h.stats[kind]
	if st == nil {
		st = &SolverStats{}
		h.stats[kind] = st
	}
	st.Queries++
	switch res {
	case "sat":
		st.Sat++
	case "unsat":
		st.Unsat++
	default:
		st.Unknown++
	}
	st.Seconds += d.Seconds()
}

func (h *SolverHub) Stats() map[string]SolverStats {
	h.mu.Lock()
	defer h.mu.Unlock()
	r := map[string]SolverStats{}
	for k, v := range h.stats {
		r[k] = *v
	}
	return r
}

// solve decides one query with the worker's solver set.
func (h *SolverHub) solve(ss *solverSet, query string, vals []string, hasStr bool) queryResult {
	key := query + "\x00" + strings.Join(vals, " ")
	h.mu.Lock()
	if r, ok := h.cache[key]; ok {
		h.mu.Unlock()
		return r
	}
	h.mu.Unlock()
	order := h.Order.Int
	if hasStr {
		order = h.Order.Str
		if strings.Contains(query, "(mod ") || strings.Contains(query, "str.to_int") {
			order = []string{"cvc5"}
			if strings.Contains(query, "(mod ") {
				order = []string{"cvc5", "z3"}
			}
		}
	}
	r := queryResult{res: "unknown"}
	for _, kind := range order {
		p := ss.get(kind)
		if p == nil {
			continue
		}
		t0 := time.Now()
		res, model := p.check(query, vals)
		h.record(kind, res, time.Since(t0))
		if d := os.Getenv("GOSMT_DUMP_ALL"); d != "" {
			n := atomic.AddInt64(&dumpN, 1)
			if n < 400 {
				os.WriteFile(fmt.Sprintf("%s/q-%04d-%s-%dus.smt2", d, n, res, time.Since(t0).Microseconds()), []byte(query+"(check-sat)\n"), 0644)
			}
		}
		if d := os.Getenv("GOSMT_DUMP_SLOW"); d != "" && time.Since(t0) > 500*time.Millisecond {
			n := atomic.AddInt64(&dumpN, 1)
			os.WriteFile(fmt.Sprintf("%s/slow-%s-%d-%s-%dms.smt2", d, kind, n, res, time.Since(t0).Milliseconds()), []byte(query+"(check-sat)\n"), 0644)
		}
		if res == "sat" || res == "unsat" {
			r = queryResult{res: res, model: model, solver: kind}
			break
		}
		if d := os.Getenv("GOSMT_DUMP"); d != "" {
			n := atomic.AddInt64(&dumpN, 1)
			os.WriteFile(fmt.Sprintf("%s/unknown-%s-%d.smt2", d, kind, n), []byte(query+"(check-sat)\n"), 0644)
		}
	}
	h.mu.Lock()
	h.cache[key] = r
	h.mu.Unlock()
	return r
}
