package sx

// Symbolic terms: SMT-LIB2 expressions over Int, Bool and String (bytes are
// characters 0..255). Concrete values never become *Sym: every constructor
// folds constants, so "concrete-first" execution falls out of the term layer.

import (
	"fmt"
	"math/big"
	"strconv"
	"strings"
)

type Sort int

const (
	SInt Sort = iota
	SBool
	SStr
)

func (s Sort) String() string {
	switch s {
	case SInt:
		return "Int"
	case SBool:
		return "Bool"
	}
	return "String"
}

// Sym is a symbolic term.
type Sym struct {
	sort Sort
	e    string // SMT-LIB2 text
	// optional structure, used for interval refinement and simplification
	op string // "var", "<=", "<", ">=", ">", "=", "not", "and", "or", "len", "+k"
	a  []interface{}
	// integer interval known at construction (nil = unbounded)
	lo, hi *big.Int
	// known length of a string term (set when the constructor knows it)
	ln interface{}
	// heavy: expensive for the solver (large regular expressions); such
	// conditions are kept out of feasibility queries (see Path.lazy)
	heavy bool
}

func (s *Sym) String() string { return s.e }

var (
	bigZero = big.NewInt(0)
	bigOne  = big.NewInt(1)
)

func bi(x int64) *big.Int { return big.NewInt(x) }

// smtInt renders an integer literal.
func smtInt(x int64) string {
	if x < 0 {
		if x == -9223372036854775808 {
			return "(- 9223372036854775808)"
		}
		return "(- " + strconv.FormatInt(-x, 10) + ")"
	}
	return strconv.FormatInt(x, 10)
}

func smtBig(x *big.Int) string {
	if x.Sign() < 0 {
		return "(- " + new(big.Int).Neg(x).String() + ")"
	}
	return x.String()
}

// smtStr renders a byte string as an SMT-LIB2 string literal.
func smtStr(s string) string {
	var b strings.Builder
	b.WriteByte('"')
	for i := 0; i < len(s); i++ {
		c := s[i]
		switch {
		case c == '"':
			b.WriteString(`""`)
		case c == '\\':
			b.WriteString(`\u{5c}`)
		case c >= 0x20 && c < 0x7f:
			b.WriteByte(c)
		default:
			fmt.Fprintf(&b, `\u{%x}`, c)
		}
	}
	b.WriteByte('"')
	return b.String()
}

func smtBool(b bool) string {
	if b {
		return "true"
	}
	return "false"
}

// term text of a value of the given sort (concrete or symbolic).
func tInt(v value) string {
	switch v := v.(type) {
	case int64:
		return smtInt(v)
	case *Sym:
		return v.e
	}
	panic(fmt.Sprintf("tInt: %T", v))
}

func tStr(v value) string {
	switch v := v.(type) {
	case string:
		return smtStr(v)
	case *Sym:
		return v.e
	}
	panic(fmt.Sprintf("tStr: %T", v))
}

func tBool(v value) string {
	switch v := v.(type) {
	case bool:
		return smtBool(v)
	case *Sym:
		return v.e
	}
	panic(fmt.Sprintf("tBool: %T", v))
}

func isSym(v value) bool { _, ok := v.(*Sym); return ok }

func anySym(vs ...value) bool {
	for _, v := range vs {
		if isSym(v) {
			return true
		}
	}
	return false
}

// ---------------------------------------------------------------- intervals

// ivOf returns the known interval of an integer value (nil = unbounded side).
func (p *Path) ivOf(v value) (lo, hi *big.Int) {
	switch v := v.(type) {
	case int64:
		return bi(v), bi(v)
	case *Sym:
		lo, hi = v.lo, v.hi
		if v.op == "var" || v.op == "len" {
			if iv, ok := p.varIv[v.e]; ok {
				if iv.lo != nil && (lo == nil || iv.lo.Cmp(lo) > 0) {
					lo = iv.lo
				}
				if iv.hi != nil && (hi == nil || iv.hi.Cmp(hi) < 0) {
					hi = iv.hi
				}
			}
		}
		return
	}
	return nil, nil
}

type ival struct{ lo, hi *big.Int }

// ---------------------------------------------------------------- booleans

func mkNot(x value) value {
	switch x := x.(type) {
	case bool:
		return !x
	case *Sym:
		if x.op == "not" {
			return x.a[0]
		}
		return &Sym{sort: SBool, e: "(not " + x.e + ")", op: "not", a: []interface{}{x}, heavy: x.heavy}
	}
	panic("mkNot")
}

func mkAnd(x, y value) value {
	if b, ok := x.(bool); ok {
		if !b {
			return false
		}
		return y
	}
	if b, ok := y.(bool); ok {
		if !b {
			return false
		}
		return x
	}
	return &Sym{sort: SBool, e: "(and " + tBool(x) + " " + tBool(y) + ")", op: "and", a: []interface{}{x, y}}
}

func mkOr(x, y value) value {
	if b, ok := x.(bool); ok {
		if b {
			return true
		}
		return y
	}
	if b, ok := y.(bool); ok {
		if b {
			return true
		}
		return x
	}
	return &Sym{sort: SBool, e: "(or " + tBool(x) + " " + tBool(y) + ")", op: "or", a: []interface{}{x, y}}
}

func mkImplies(x, y value) value { return mkOr(mkNot(x), y) }

func mkBoolEq(x, y value) value {
	if xb, ok := x.(bool); ok {
		if xb {
			return y
		}
		return mkNot(y)
	}
	if yb, ok := y.(bool); ok {
		if yb {
			return x
		}
		return mkNot(x)
	}
	return &Sym{sort: SBool, e: "(= " + tBool(x) + " " + tBool(y) + ")"}
}

// mkIte builds if-then-else over values of one sort.
func mkIte(c, x, y value) value {
	if b, ok := c.(bool); ok {
		if b {
			return x
		}
		return y
	}
	cs := c.(*Sym)
	switch xv := x.(type) {
	case bool:
		return mkOr(mkAnd(c, x), mkAnd(mkNot(c), y))
	case int64:
		if yv, ok := y.(int64); ok && yv == xv {
			return x
		}
	case string:
		if yv, ok := y.(string); ok && yv == xv {
			return x
		}
	}
	switch sortOf(x, y) {
	case SInt:
		r := &Sym{sort: SInt, e: "(ite " + cs.e + " " + tInt(x) + " " + tInt(y) + ")"}
		return r
	case SStr:
		return &Sym{sort: SStr, e: "(ite " + cs.e + " " + tStr(x) + " " + tStr(y) + ")"}
	case SBool:
		return &Sym{sort: SBool, e: "(ite " + cs.e + " " + tBool(x) + " " + tBool(y) + ")"}
	}
	panic("mkIte")
}

func sortOf(vs ...value) Sort {
	for _, v := range vs {
		switch v := v.(type) {
		case int64:
			return SInt
		case string:
			return SStr
		case bool:
			return SBool
		case *Sym:
			return v.sort
		}
	}
	panic(fmt.Sprintf("sortOf: %T", vs[0]))
}

// ---------------------------------------------------------------- integers

func (p *Path) mkIntCmp(op string, x, y value) value {
	xc, xok := x.(int64)
	yc, yok := y.(int64)
	if xok && yok {
		switch op {
		case "<":
			return xc < yc
		case "<=":
			return xc <= yc
		case ">":
			return xc > yc
		case ">=":
			return xc >= yc
		case "=":
			return xc == yc
		}
	}
	if xs, ok := x.(*Sym); ok {
		if ys, ok := y.(*Sym); ok && xs.e == ys.e {
			return op == "<=" || op == ">=" || op == "="
		}
	}
	// decide by intervals when possible
	xl, xh := p.ivOf(x)
	yl, yh := p.ivOf(y)
	lt := func(a, b *big.Int) bool { return a != nil && b != nil && a.Cmp(b) < 0 }
	le := func(a, b *big.Int) bool { return a != nil && b != nil && a.Cmp(b) <= 0 }
	switch op {
	case "<":
		if lt(xh, yl) {
			return true
		}
		if le(yh, xl) {
			return false
		}
	case "<=":
		if le(xh, yl) {
			return true
		}
		if lt(yh, xl) {
			return false
		}
	case ">":
		if lt(yh, xl) {
			return true
		}
		if le(xh, yl) {
			return false
		}
	case ">=":
		if le(yh, xl) {
			return true
		}
		if lt(xh, yl) {
			return false
		}
	case "=":
		if lt(xh, yl) || lt(yh, xl) {
			return false
		}
		if xs, ok := x.(*Sym); ok {
			if ys, ok := y.(*Sym); ok && xs.e == ys.e {
				return true
			}
		}
	}
	return &Sym{sort: SBool, e: "(" + op + " " + tInt(x) + " " + tInt(y) + ")", op: op, a: []interface{}{x, y}}
}

func addBig(a, b *big.Int) *big.Int {
	if a == nil || b == nil {
		return nil
	}
	return new(big.Int).Add(a, b)
}

func subBig(a, b *big.Int) *big.Int {
	if a == nil || b == nil {
		return nil
	}
	return new(big.Int).Sub(a, b)
}

func minBig(xs ...*big.Int) *big.Int {
	var m *big.Int
	for _, x := range xs {
		if x == nil {
			return nil
		}
		if m == nil || x.Cmp(m) < 0 {
			m = x
		}
	}
	return m
}

func maxBig(xs ...*big.Int) *big.Int {
	var m *big.Int
	for _, x := range xs {
		if x == nil {
			return nil
		}
		if m == nil || x.Cmp(m) > 0 {
			m = x
		}
	}
	return m
}

// mkAdd: mathematical addition (no wrap).
func (p *Path) mkAdd(x, y value) value {
	xc, xok := x.(int64)
	yc, yok := y.(int64)
	if xok && yok {
		return xc + yc // callers guarantee no overflow for length arithmetic; typed ops use arith()
	}
	if xok && xc == 0 {
		return y
	}
	if yok && yc == 0 {
		return x
	}
	// x + (a - x) = a
	if ys, ok := y.(*Sym); ok && ys.op == "sub" && tInt(ys.a[1]) == tInt(x) {
		return ys.a[0]
	}
	if xs, ok := x.(*Sym); ok && xs.op == "sub" && tInt(xs.a[1]) == tInt(y) {
		return xs.a[0]
	}
	// constant folding through a tracked sum: (a + k1) + k2 = a + (k1+k2)
	if yok {
		if xs, ok := x.(*Sym); ok && xs.op == "add" {
			if k, ok := xs.a[0].(int64); ok {
				return p.mkAdd(xs.a[1], k+yc)
			}
			if k, ok := xs.a[1].(int64); ok {
				return p.mkAdd(xs.a[0], k+yc)
			}
		}
	}
	if xok {
		if ys, ok := y.(*Sym); ok && ys.op == "add" {
			if k, ok := ys.a[0].(int64); ok {
				return p.mkAdd(ys.a[1], k+xc)
			}
			if k, ok := ys.a[1].(int64); ok {
				return p.mkAdd(ys.a[0], k+xc)
			}
		}
	}
	xl, xh := p.ivOf(x)
	yl, yh := p.ivOf(y)
	return &Sym{sort: SInt, e: "(+ " + tInt(x) + " " + tInt(y) + ")", lo: addBig(xl, yl), hi: addBig(xh, yh), op: "add", a: []interface{}{x, y}}
}

func (p *Path) mkSub(x, y value) value {
	xc, xok := x.(int64)
	yc, yok := y.(int64)
	if xok && yok {
		return xc - yc
	}
	if yok && yc == 0 {
		return x
	}
	if xs, ok := x.(*Sym); ok {
		if ys, ok := y.(*Sym); ok && xs.e == ys.e {
			return int64(0)
		}
	}
	// (a + b) - a = b, (a + b) - b = a, (a + k1) - k2 = a + (k1-k2)
	if xs, ok := x.(*Sym); ok && xs.op == "add" {
		if tInt(xs.a[0]) == tInt(y) {
			return xs.a[1]
		}
		if tInt(xs.a[1]) == tInt(y) {
			return xs.a[0]
		}
		if yok {
			if k, ok := xs.a[0].(int64); ok {
				return p.mkAdd(xs.a[1], k-yc)
			}
			if k, ok := xs.a[1].(int64); ok {
				return p.mkAdd(xs.a[0], k-yc)
			}
		}
	}
	xl, xh := p.ivOf(x)
	yl, yh := p.ivOf(y)
	return &Sym{sort: SInt, e: "(- " + tInt(x) + " " + tInt(y) + ")", lo: subBig(xl, yh), hi: subBig(xh, yl), op: "sub", a: []interface{}{x, y}}
}

func (p *Path) mkMul(x, y value) value {
	xc, xok := x.(int64)
	yc, yok := y.(int64)
	if xok && yok {
		return xc * yc
	}
	if xok && xc == 1 {
		return y
	}
	if yok && yc == 1 {
		return x
	}
	if (xok && xc == 0) || (yok && yc == 0) {
		return int64(0)
	}
	xl, xh := p.ivOf(x)
	yl, yh := p.ivOf(y)
	var lo, hi *big.Int
	if xl != nil && xh != nil && yl != nil && yh != nil {
		c := []*big.Int{new(big.Int).Mul(xl, yl), new(big.Int).Mul(xl, yh), new(big.Int).Mul(xh, yl), new(big.Int).Mul(xh, yh)}
		lo, hi = minBig(c...), maxBig(c...)
	}
	return &Sym{sort: SInt, e: "(* " + tInt(x) + " " + tInt(y) + ")", lo: lo, hi: hi}
}

func (p *Path) mkMin(x, y value) value {
	c := p.mkIntCmp("<=", x, y)
	if _, sym := c.(*Sym); sym && p.interp != nil {
		// semantic simplification: is one side always the minimum on this path?
		if p.validCond(c) {
			return x
		}
		if p.validCond(p.mkIntCmp("<=", y, x)) {
			return y
		}
	}
	r := mkIte(c, x, y)
	if rs, ok := r.(*Sym); ok && rs.lo == nil && rs.hi == nil {
		xl, xh := p.ivOf(x)
		yl, yh := p.ivOf(y)
		rs.lo = minBig(xl, yl)
		if xh != nil && yh != nil {
			rs.hi = minBig(xh, yh)
		} else if xh != nil {
			rs.hi = xh
		} else {
			rs.hi = yh
		}
	}
	return r
}

func (p *Path) mkMax(x, y value) value {
	c := p.mkIntCmp(">=", x, y)
	r := mkIte(c, x, y)
	if rs, ok := r.(*Sym); ok && rs.lo == nil && rs.hi == nil {
		xl, xh := p.ivOf(x)
		yl, yh := p.ivOf(y)
		rs.hi = maxBig(xh, yh)
		if xl != nil && yl != nil {
			rs.lo = maxBig(xl, yl)
		} else if xl != nil {
			rs.lo = xl
		} else {
			rs.lo = yl
		}
	}
	return r
}

// ---------------------------------------------------------------- strings

const maxStrLen = 1 << 31

func (p *Path) mkLen(s value) value {
	switch s := s.(type) {
	case string:
		return int64(len(s))
	case *Sym:
		if s.ln != nil {
			if ls, ok := s.ln.(*Sym); ok && (ls.lo == nil || ls.lo.Sign() < 0) {
				// a length is never negative
				cp := *ls
				cp.lo = bigZero
				return &cp
			}
			return s.ln
		}
		if s.op == "concat" {
			var total value = int64(0)
			for _, sg := range s.a {
				total = p.mkAdd(total, p.mkLen(sg))
			}
			return total
		}
		if iv, ok := p.varIv["(str.len "+s.e+")"]; ok && iv.lo != nil && iv.hi != nil && iv.lo.Cmp(iv.hi) == 0 && iv.lo.IsInt64() {
			return iv.lo.Int64() // the length is pinned by the path condition
		}
		return &Sym{sort: SInt, e: "(str.len " + s.e + ")", op: "len", lo: bigZero, hi: bi(maxStrLen)}
	}
	panic(fmt.Sprintf("mkLen %T", s))
}

func mkConcat(x, y value) value {
	xc, xok := x.(string)
	yc, yok := y.(string)
	if xok && yok {
		return xc + yc
	}
	if xok && xc == "" {
		return y
	}
	if yok && yc == "" {
		return x
	}
	segs := append(append([]interface{}{}, segmentsOf(x)...), segmentsOf(y)...)
	// merge adjacent concrete segments and adjacent substrings of one source
	var m []interface{}
	for _, sg := range segs {
		if c, ok := sg.(string); ok && len(m) > 0 {
			if pc, ok := m[len(m)-1].(string); ok {
				m[len(m)-1] = pc + c
				continue
			}
		}
		if cur, ok := sg.(*Sym); ok && len(m) > 0 {
			if prev, ok := m[len(m)-1].(*Sym); ok {
				if merged := mergeAdjacent(prev, cur); merged != nil {
					m[len(m)-1] = merged
					continue
				}
			}
		}
		m = append(m, sg)
	}
	if len(m) == 1 {
		return m[0]
	}
	parts := make([]string, len(m))
	for k, sg := range m {
		parts[k] = tStr(sg)
	}
	return &Sym{sort: SStr, e: "(str.++ " + strings.Join(parts, " ") + ")", op: "concat", a: m}
}

// mergeAdjacent: substr(s,a,n1) ++ substr(s,a+n1,n2) = substr(s,a,n1+n2); a
// leading piece substr(s,0,n1) followed by the rest substr(s,n1,len(s)-n1) = s.
func mergeAdjacent(x, y *Sym) value {
	// x may be the source itself cut to a prefix, y a substr of the same source
	if y.op != "substr" {
		return nil
	}
	ysrc, yoff, yn := y.a[0], y.a[1], y.a[2]
	var xsrc value
	var xoff, xn value
	if x.op == "substr" {
		xsrc, xoff, xn = x.a[0], x.a[1], x.a[2]
	} else {
		return nil
	}
	if tStr(xsrc) != tStr(ysrc) {
		return nil
	}
	end := simpleAdd(xoff, xn)
	if tInt(end) != tInt(yoff) {
		return nil
	}
	total := simpleAdd(xn, yn)
	// whole source?
	if oc, ok := xoff.(int64); ok && oc == 0 {
		if src, ok := xsrc.(*Sym); ok {
			lenText := tInt(plainLen(src))
			// yn is typically (- len xn): total = xn + (len - xn)
			if tInt(yn) == "(- "+lenText+" "+tInt(xn)+")" {
				return src
			}
		}
	}
	return &Sym{sort: SStr, e: "(str.substr " + tStr(xsrc) + " " + tInt(xoff) + " " + tInt(total) + ")", ln: total, op: "substr", a: []interface{}{xsrc, xoff, total}}
}

// plainLen: length term of a string value in the same textual form mkLen uses.
func plainLen(v value) value {
	switch v := v.(type) {
	case string:
		return int64(len(v))
	case *Sym:
		if v.ln != nil {
			return v.ln
		}
		if v.op == "concat" {
			var total value = int64(0)
			for _, sg := range v.a {
				total = simpleAdd(total, plainLen(sg))
			}
			return total
		}
		return &Sym{sort: SInt, e: "(str.len " + v.e + ")"}
	}
	return int64(0)
}

func simpleAdd(x, y value) value {
	xc, xok := x.(int64)
	yc, yok := y.(int64)
	if xok && yok {
		return xc + yc
	}
	if xok && xc == 0 {
		return y
	}
	if yok && yc == 0 {
		return x
	}
	return &Sym{sort: SInt, e: "(+ " + tInt(x) + " " + tInt(y) + ")"}
}

// segmentsOf returns the concatenation segments of a string value.
func segmentsOf(v value) []interface{} {
	if s, ok := v.(*Sym); ok && s.op == "concat" {
		return s.a
	}
	if c, ok := v.(string); ok && c == "" {
		return nil
	}
	return []interface{}{v}
}

func concatOf(segs []interface{}) value {
	var r value = ""
	for _, sg := range segs {
		r = mkConcat(r, sg)
	}
	return r
}

// sameInt: two integer values are equal textually, or both are pinned to the
// same number by the path condition's intervals.
func (p *Path) sameInt(a, b value) bool {
	if tInt(a) == tInt(b) {
		return true
	}
	al, ah := p.ivOf(a)
	bl, bh := p.ivOf(b)
	return al != nil && ah != nil && bl != nil && bh != nil && al.Cmp(ah) == 0 && bl.Cmp(bh) == 0 && al.Cmp(bl) == 0
}

// mkSubstr: s[off:off+n] assuming bounds were already checked.
func (p *Path) mkSubstr(s, off, n value) value {
	sc, sok := s.(string)
	oc, ook := off.(int64)
	nc, nok := n.(int64)
	if sok && ook && nok {
		return sc[oc : oc+nc]
	}
	if nok && nc == 0 {
		return ""
	}
	if ook && oc == 0 {
		// s[0:len(s)] == s
		if p.sameInt(n, p.mkLen(s)) {
			return s
		}
	}
	// a concrete range that lies inside the leading concrete segment
	if ook && nok {
		if segs := segmentsOf(s); len(segs) > 1 {
			if first, ok := segs[0].(string); ok && oc+nc <= int64(len(first)) {
				return first[oc : oc+nc]
			}
		}
	}
	// prefix that drops k bytes of a concrete last segment
	if ook && oc == 0 {
		segs := segmentsOf(s)
		if len(segs) > 1 {
			if last, ok := segs[len(segs)-1].(string); ok {
				total := p.mkLen(s)
				for k := 1; k <= len(last); k++ {
					if p.sameInt(n, p.mkSub(total, int64(k))) {
						return mkConcat(concatOf(segs[:len(segs)-1]), last[:len(last)-k])
					}
				}
			}
		}
	}
	// prefix of a concatenation that ends exactly at a segment boundary
	if ook && oc == 0 {
		segs := segmentsOf(s)
		if len(segs) > 1 {
			var acc value = int64(0)
			for k, sg := range segs {
				acc = p.mkAdd(acc, p.mkLen(sg))
				if p.sameInt(acc, n) {
					return concatOf(segs[:k+1])
				}
			}
			// a concrete cut position: keep whole leading segments and cut inside
			// the first segment that reaches beyond it (decided by validity queries)
			if nok && p.interp != nil {
				acc = int64(0)
				for k, sg := range segs {
					next := p.mkAdd(acc, p.mkLen(sg))
					if _, sym := next.(*Sym); sym && p.validEq(next, n) {
						return concatOf(segs[:k+1])
					}
					if p.validCond(p.mkIntCmp("<=", next, n)) {
						acc = next
						continue
					}
					// the cut falls inside sg if acc <= n <= next always
					if p.validCond(p.mkIntCmp("<=", acc, n)) && p.validCond(p.mkIntCmp("<=", n, next)) {
						piece := p.mkSubstr(sg, int64(0), p.mkSub(n, acc))
						return mkConcat(concatOf(segs[:k]), piece)
					}
					break
				}
			}
		}
	}
	// suffix of a concatenation that starts exactly at a segment boundary
	if segs := segmentsOf(s); len(segs) > 1 {
		var acc value = int64(0)
		for k, sg := range segs[:len(segs)-1] {
			acc = p.mkAdd(acc, p.mkLen(sg))
			if p.sameInt(acc, off) {
				rest := concatOf(segs[k+1:])
				if p.sameInt(p.mkLen(rest), n) {
					return rest
				}
				return p.mkSubstr(rest, int64(0), n)
			}
		}
	}
	// a concrete start position inside a concatenation: drop the segments that
	// always end before it and cut inside the segment that always contains it
	if segs := segmentsOf(s); len(segs) > 1 && ook && oc > 0 && p.interp != nil {
		var acc value = int64(0)
		for k, sg := range segs {
			next := p.mkAdd(acc, p.mkLen(sg))
			if p.validCond(p.mkIntCmp("<=", next, off)) {
				acc = next
				continue
			}
			if p.validCond(p.mkIntCmp("<=", acc, off)) {
				in := p.mkSub(off, acc)
				piece := p.mkSubstr(sg, in, p.mkSub(p.mkLen(sg), in))
				rest := mkConcat(piece, concatOf(segs[k+1:]))
				if rl := p.mkLen(rest); tInt(rl) == tInt(n) || p.validEq(rl, n) {
					return rest
				}
				return p.mkSubstr(rest, int64(0), n)
			}
			break
		}
	}
	r := &Sym{sort: SStr, e: "(str.substr " + tStr(s) + " " + tInt(off) + " " + tInt(n) + ")", ln: n, op: "substr", a: []interface{}{s, off, n}}
	if ss, ok := s.(*Sym); ok {
		if a, ok := p.alpha[ss.e]; ok {
			p.alpha[r.e] = a // a substring keeps the alphabet
		}
		if p.facts["class|asciiws|"+ss.e] {
			p.facts["class|asciiws|"+r.e] = true
		}
	}
	return r
}

// mkAt: byte value s[i] as Int (bounds checked by caller).
func (p *Path) mkAt(s, i value) value {
	sc, sok := s.(string)
	ic, iok := i.(int64)
	if sok && iok {
		return int64(sc[ic])
	}
	return &Sym{sort: SInt, e: "(str.to_code (str.at " + tStr(s) + " " + tInt(i) + "))", lo: bigZero, hi: bi(255)}
}

// mkFromCode: one-byte string from a byte value.
func mkFromCode(c value) value {
	if cc, ok := c.(int64); ok {
		return string([]byte{byte(cc)})
	}
	return &Sym{sort: SStr, e: "(str.from_code " + tInt(c) + ")"}
}

func mkStrEq(x, y value) value {
	xc, xok := x.(string)
	yc, yok := y.(string)
	if xok && yok {
		return xc == yc
	}
	if xs, ok := x.(*Sym); ok {
		if ys, ok := y.(*Sym); ok && xs.e == ys.e {
			return true
		}
	}
	// different known lengths, or different leading concrete text
	if lx, ok := plainLen(x).(int64); ok {
		if ly, ok := plainLen(y).(int64); ok && lx != ly {
			return false
		}
	}
	hx, hy := leadText(x), leadText(y)
	n := len(hx)
	if len(hy) < n {
		n = len(hy)
	}
	if hx[:n] != hy[:n] {
		return false
	}
	return &Sym{sort: SBool, e: "(= " + tStr(x) + " " + tStr(y) + ")", op: "streq", a: []interface{}{x, y}}
}

// leadText: the concrete text a string value is known to start with.
func leadText(v value) string {
	switch v := v.(type) {
	case string:
		return v
	case *Sym:
		if segs := segmentsOf(v); len(segs) > 0 {
			if c, ok := segs[0].(string); ok {
				return c
			}
		}
	}
	return ""
}

func mkStrLt(x, y value) value {
	xc, xok := x.(string)
	yc, yok := y.(string)
	if xok && yok {
		return xc < yc
	}
	return &Sym{sort: SBool, e: "(str.< " + tStr(x) + " " + tStr(y) + ")"}
}

func mkStrLe(x, y value) value {
	xc, xok := x.(string)
	yc, yok := y.(string)
	if xok && yok {
		return xc <= yc
	}
	return &Sym{sort: SBool, e: "(str.<= " + tStr(x) + " " + tStr(y) + ")"}
}

func mkContains(s, sub value) value {
	sc, sok := s.(string)
	bc, bok := sub.(string)
	if sok && bok {
		return strings.Contains(sc, bc)
	}
	if bok && bc == "" {
		return true
	}
	return &Sym{sort: SBool, e: "(str.contains " + tStr(s) + " " + tStr(sub) + ")", op: "contains", a: []interface{}{s, sub}}
}

// containsV is mkContains with syntactic simplification from recorded facts
// (segments known not to contain a one-byte needle).
func (p *Path) containsV(s, sub value) value {
	if c, ok := sub.(string); ok && len(c) == 1 {
		all := true
		for _, sg := range segmentsOf(s) {
			switch sg := sg.(type) {
			case string:
				if strings.Contains(sg, c) {
					return true
				}
			case *Sym:
				if !p.noContain(sg.e, c) {
					all = false
				}
			}
		}
		if all {
			return false
		}
	}
	return mkContains(s, sub)
}

func mkPrefixOf(pre, s value) value {
	sc, sok := s.(string)
	pc, pok := pre.(string)
	if sok && pok {
		return strings.HasPrefix(sc, pc)
	}
	if pok && pc == "" {
		return true
	}
	if pok {
		if lt := leadText(s); lt != "" {
			if len(lt) >= len(pc) {
				return strings.HasPrefix(lt, pc)
			}
			if !strings.HasPrefix(pc, lt) {
				return false
			}
		}
	}
	return &Sym{sort: SBool, e: "(str.prefixof " + tStr(pre) + " " + tStr(s) + ")"}
}

func mkSuffixOf(suf, s value) value {
	sc, sok := s.(string)
	pc, pok := suf.(string)
	if sok && pok {
		return strings.HasSuffix(sc, pc)
	}
	if pok && pc == "" {
		return true
	}
	return &Sym{sort: SBool, e: "(str.suffixof " + tStr(suf) + " " + tStr(s) + ")"}
}

// suffixV is mkSuffixOf with syntactic reasoning for a one-byte suffix over
// concatenations whose tail segments are concrete or known not to end with it.
func (p *Path) suffixV(suf, s value) value {
	c, ok := suf.(string)
	if !ok || len(c) != 1 {
		return mkSuffixOf(suf, s)
	}
	segs := segmentsOf(s)
	// suffixof(c, X ++ Y) with Y never ending in c  ==  (Y == "" and suffixof(c, X))
	var cond value = true
	for k := len(segs) - 1; k >= 0; k-- {
		switch sg := segs[k].(type) {
		case string:
			if sg != "" {
				return mkAnd(cond, strings.HasSuffix(sg, c))
			}
		case *Sym:
			if a, ok := p.alpha[sg.e]; ok && !a[c[0]] {
				p.facts["noend|"+sg.e+"|"+c] = true
			}
			if !p.facts["noend|"+sg.e+"|"+c] {
				return mkAnd(cond, mkSuffixOf(suf, concatOf(segs[:k+1])))
			}
			lo, _ := p.ivOf(p.mkLen(sg))
			if lo != nil && lo.Sign() > 0 {
				return false
			}
			cond = mkAnd(cond, p.mkIntCmp("=", p.mkLen(sg), int64(0)))
		}
	}
	return false
}

func (p *Path) mkIndexOf(s, sub, from value) value {
	sc, sok := s.(string)
	bc, bok := sub.(string)
	fc, fok := from.(int64)
	if sok && bok && fok {
		if int(fc) > len(sc) {
			return int64(-1)
		}
		r := strings.Index(sc[fc:], bc)
		if r < 0 {
			return int64(-1)
		}
		return int64(r) + fc
	}
	// a one-byte needle from position 0 over a concatenation whose leading
	// segments provably do not contain it: decided on the segment list
	if bok && len(bc) == 1 && fok && fc == 0 {
		var before value = int64(0)
		decided := true
		for _, sg := range segmentsOf(s) {
			switch sg := sg.(type) {
			case string:
				if k := strings.Index(sg, bc); k >= 0 {
					return p.mkAdd(before, int64(k))
				}
				before = p.mkAdd(before, int64(len(sg)))
			case *Sym:
				if p.noContain(sg.e, bc) {
					l := p.mkLen(sg)
					if lo, hi := p.ivOf(l); lo != nil && hi != nil && lo.Cmp(hi) == 0 && lo.IsInt64() {
						l = lo.Int64()
					}
					before = p.mkAdd(before, l)
				} else {
					decided = false
				}
			}
			if !decided {
				break
			}
		}
		if decided {
			return int64(-1)
		}
	}
	return &Sym{sort: SInt, e: "(str.indexof " + tStr(s) + " " + tStr(sub) + " " + tInt(from) + ")", lo: bi(-1), hi: bi(maxStrLen)}
}

func mkInRe(s value, re string) value {
	return &Sym{sort: SBool, e: "(str.in_re " + tStr(s) + " " + re + ")"}
}
