package sx

// Engine-side model of bufio.Scanner with the default ScanLines split function.

import "go/types"

type scannerState struct {
	reader iface
	loaded bool
	data   value // whole input once loaded
	rest   value
	tok    value
	err    value
	custom bool
	maxTok int64
	splitFn value // a custom split function, run for real
	sep    string // token separator ("\n" with CR dropping for ScanLines, "\x00" for tools.SplitOnNul)
}

func (i *interpreter) readAll(fr *frame, r iface) (value, value) {
	// fast paths for readers whose whole content is known
	if no, ok := r.v.(*nativeObj); ok && no.kind == "bufreader" {
		st := no.v.(*scannerState)
		if !st.loaded {
			st.loaded = true
			data, err := i.readAll(fr, st.reader)
			st.data, st.rest, st.err = data, data, err
		}
		rest := st.rest
		st.rest = ""
		return rest, nilErr()
	}
	if pv, ok := r.v.(*value); ok && pv != nil {
		switch r.t.String() {
		case "*strings.Reader":
			// the whole remaining content is known: no buffers, no Read calls
			st := (*pv).(structure)
			p := i.path
			all := st[0]
			off := st[1]
			rest := p.mkSubstr(all, off, p.mkSub(p.mkLen(all), off))
			st[1] = p.mkLen(all)
			return rest, nilErr()
		case "*bytes.Buffer":
			s := (*pv).(structure)
			cur, _ := s[0].(*byteSlice)
			var all value = ""
			if cur != nil {
				all = i.bytesOf(cur)
			}
			p := i.path
			rest := p.mkSubstr(all, s[1], p.mkSub(p.mkLen(all), s[1]))
			s[0] = (*byteSlice)(nil)
			s[1] = int64(0)
			return rest, nilErr()
		}
	}
	// generic: call Read until EOF (bounded by the unwinding limit)
	p := i.path
	var acc value = ""
	for k := 0; ; k++ {
		if k > i.ex.Unwind+2 {
			p.obls = append(p.obls, &Obligation{Kind: "unwind", Msg: "ReadAll: too many reads", Status: "undecided"})
			panic(pathEnd{reason: "unwind", detail: "readAll"})
		}
		buf := i.makeSlice(types.NewSlice(types.Typ[types.Uint8]), int64(4096), int64(4096)).(*byteSlice)
		res := i.callMethod(fr, r, "Read", buf).(tuple)
		n := res[0]
		acc = i.compact(mkConcat(acc, p.mkSubstr(buf.arr.content, int64(0), n)))
		if e := res[1].(iface); e.t != nil {
			eof := i.globalValue("io", "EOF").(iface)
			if b, ok := p.equalsV(types.Universe.Lookup("error").Type(), e, eof).(bool); ok && b {
				return acc, nilErr()
			}
			return acc, e
		}
	}
}

func init() {
	reg := func(name string, h intrinsic) { intrinsics[name] = h }
	st := func(fr *frame, v value) *scannerState {
		no, ok := v.(*nativeObj)
		if !ok {
			fr.i.checkPoison(v, "scanner")
			unsup("bufio.Scanner receiver %T", v)
		}
		return no.v.(*scannerState)
	}
	reg("bufio.NewScanner", func(fr *frame, a []value) value {
		return &nativeObj{kind: "scanner", v: &scannerState{reader: a[0].(iface), err: nilErr(), maxTok: 64 * 1024}}
	})
	reg("(*bufio.Scanner).Buffer", func(fr *frame, a []value) value {
		s := st(fr, a[0])
		s.maxTok = fr.i.concreteInt(a[2], "Scanner.Buffer max")
		return nil
	})
	reg("(*bufio.Scanner).Split", func(fr *frame, a []value) value {
		if f, ok := a[1].(interface{ String() string }); ok {
			switch f.String() {
			case "bufio.ScanLines":
				return nil
			case "github.com/git-lfs/git-lfs/v3/tools.SplitOnNul":
				st(fr, a[0]).sep = "\x00"
				return nil
			}
		}
		st(fr, a[0]).splitFn = a[1]
		return nil
	})
	reg("(*bufio.Scanner).Scan", func(fr *frame, a []value) value {
		i := fr.i
		p := i.path
		s := st(fr, a[0])
		if !s.loaded {
			s.loaded = true
			data, err := i.readAll(fr, s.reader)
			s.data, s.rest = data, data
			s.err = err
		}
		if !i.branch(p.mkIntCmp(">", p.mkLen(s.rest), int64(0))) {
			s.tok = ""
			return false
		}
		if s.splitFn != nil {
			// the whole remaining input is offered with atEOF=true (the split
			// functions git-lfs uses look for a separator and otherwise return the rest)
			for {
				res := call(i, fr, 0, s.splitFn, []value{i.newBytes(s.rest), true}).(tuple)
				adv := res[0]
				if e, ok := res[2].(iface); ok && e.t != nil {
					s.err = e
					s.tok = ""
					return false
				}
				tok, _ := res[1].(*byteSlice)
				restLen := p.mkLen(s.rest)
				s.rest = p.mkSubstr(s.rest, adv, p.mkSub(restLen, adv))
				if tok != nil {
					s.tok = i.compact(i.bytesOf(tok))
					return true
				}
				if !i.branch(p.mkIntCmp(">", adv, int64(0))) || !i.branch(p.mkIntCmp(">", p.mkLen(s.rest), int64(0))) {
					s.tok = ""
					return false
				}
			}
		}
		var line value
		sep := "\n"
		if s.sep != "" {
			sep = s.sep
		}
		if head, tail, found := p.splitFirst(s.rest, sep); found == 1 {
			line, s.rest = head, tail
		} else if s.sep != "" {
			if found != 0 {
				unsup("bufio.Scanner with NUL split over text that may contain NUL bytes symbolically")
			}
			line, s.rest = s.rest, ""
		} else if found == 0 || !i.branch(mkContains(s.rest, "\n")) {
			line, s.rest = s.rest, ""
		} else {
			h := p.freshVar("ln", SStr)
			t := p.freshVar("lr", SStr)
			p.pc = append(p.pc, "(= "+tStr(s.rest)+" (str.++ "+h.e+" \"\\u{a}\" "+t.e+"))", "(not (str.contains "+h.e+" \"\\u{a}\"))")
			p.facts["nc|"+h.e+"|\n"] = true
			line, s.rest = h, t
		}
		// token size limit
		if !i.branch(p.mkIntCmp("<", p.mkLen(line), s.maxTok)) {
			s.tok = ""
			s.err = i.globalValue("bufio", "ErrTooLong")
			return false
		}
		// dropCR
		if s.sep == "" && i.branch(p.suffixV("\r", line)) {
			line = p.mkSubstr(line, int64(0), p.mkSub(p.mkLen(line), int64(1)))
		}
		s.tok = i.compact(line)
		return true
	})
	// ---- bufio.Reader (ReadString / Read over the whole underlying content)
	rd := func(fr *frame, v value) *scannerState {
		no, ok := v.(*nativeObj)
		if !ok {
			fr.i.checkPoison(v, "bufio.Reader")
			unsup("bufio.Reader receiver %T", v)
		}
		s := no.v.(*scannerState)
		if !s.loaded {
			s.loaded = true
			data, err := fr.i.readAll(fr, s.reader)
			s.data, s.rest = data, data
			s.err = err
		}
		return s
	}
	reg("bufio.NewReader", func(fr *frame, a []value) value {
		return &nativeObj{kind: "bufreader", v: &scannerState{reader: a[0].(iface), err: nilErr()}}
	})
	reg("bufio.NewReaderSize", func(fr *frame, a []value) value {
		return &nativeObj{kind: "bufreader", v: &scannerState{reader: a[0].(iface), err: nilErr()}}
	})
	reg("(*bufio.Reader).ReadString", func(fr *frame, a []value) value {
		i := fr.i
		p := i.path
		s := rd(fr, a[0])
		delim := string([]byte{byte(i.concreteInt(a[1], "ReadString delimiter"))})
		eof := i.globalValue("io", "EOF")
		if head, tail, found := p.splitFirst(s.rest, delim); found == 1 {
			s.rest = tail
			return tuple{mkConcat(head, delim), nilErr()}
		} else if found == 0 || !i.branch(mkContains(s.rest, delim)) {
			line := s.rest
			s.rest = ""
			return tuple{line, eof}
		}
		h := p.freshVar("ln", SStr)
		t := p.freshVar("lr", SStr)
		p.pc = append(p.pc, "(= "+tStr(s.rest)+" (str.++ "+h.e+" "+smtStr(delim)+" "+t.e+"))", "(not (str.contains "+h.e+" "+smtStr(delim)+"))")
		p.facts["nc|"+h.e+"|"+delim] = true
		s.rest = t
		return tuple{mkConcat(h, delim), nilErr()}
	})
	reg("(*bufio.Reader).Read", func(fr *frame, a []value) value {
		i := fr.i
		p := i.path
		s := rd(fr, a[0])
		buf := a[1].(*byteSlice)
		if !i.branch(p.mkIntCmp(">", p.mkLen(s.rest), int64(0))) {
			return tuple{int64(0), i.globalValue("io", "EOF")}
		}
		n := i.byteCopy(buf, s.rest)
		s.rest = p.mkSubstr(s.rest, n, p.mkSub(p.mkLen(s.rest), n))
		return tuple{n, nilErr()}
	})
	reg("(*bufio.Scanner).Text", func(fr *frame, a []value) value { return st(fr, a[0]).tok })
	reg("(*bufio.Scanner).Bytes", func(fr *frame, a []value) value { return fr.i.newBytes(st(fr, a[0]).tok) })
	reg("(*bufio.Scanner).Err", func(fr *frame, a []value) value { return st(fr, a[0]).err })
}
