package sx

// crypto/sha256 model: the hash state accumulates the written bytes; Sum gives
// the real digest for concrete content and an uninterpreted 32-byte value
// otherwise (hex.EncodeToString of it is HashHex(content)).

import (
	"crypto/sha256"
	"go/types"
)

type hashState struct{ content value }

func (i *interpreter) rawHash(content value) value {
	if c, ok := content.(string); ok {
		h := sha256.Sum256([]byte(c))
		return string(h[:])
	}
	p := i.path
	if !p.declSet["RawHash"] {
		p.declSet["RawHash"] = true
		p.decls = append(p.decls, "(declare-fun RawHash (String) String)")
	}
	h := &Sym{sort: SStr, e: "(RawHash " + tStr(content) + ")", op: "rawhash", a: []interface{}{content}, ln: int64(32)}
	key := "rawshape:" + h.e
	if !p.declSet[key] {
		p.declSet[key] = true
		p.pc = append(p.pc, "(= (str.len "+h.e+") 32)")
	}
	return h
}

func init() {
	reg := func(name string, h intrinsic) { intrinsics[name] = h }
	reg("crypto/sha256.New", func(fr *frame, a []value) value {
		t := types.NewPointer(fr.i.namedType("crypto/sha256", "digest"))
		return iface{t: t, v: &nativeObj{kind: "sha256", v: &hashState{content: ""}}}
	})
	reg("crypto/sha256.Sum256", func(fr *frame, a []value) value {
		h := fr.i.rawHash(fr.i.strArg(a[0]))
		return byteArray{arr: &byteArr{content: h}, n: 32}
	})
	hs := func(v value) *hashState { return v.(*nativeObj).v.(*hashState) }
	nativeMethods["sha256.Write"] = func(fr *frame, a []value) value {
		s := fr.i.strArg(a[1])
		st := hs(a[0])
		st.content = fr.i.compact(mkConcat(st.content, s))
		return tuple{fr.i.path.mkLen(s), nilErr()}
	}
	nativeMethods["sha256.Sum"] = func(fr *frame, a []value) value {
		st := hs(a[0])
		h := fr.i.rawHash(st.content)
		prefix, _ := a[1].(*byteSlice)
		if prefix == nil {
			return fr.i.newBytes(h)
		}
		return fr.i.newBytes(mkConcat(fr.i.bytesOf(prefix), h))
	}
	nativeMethods["sha256.Reset"] = func(fr *frame, a []value) value { hs(a[0]).content = ""; return nil }
	nativeMethods["sha256.Size"] = func(fr *frame, a []value) value { return int64(32) }
	nativeMethods["sha256.BlockSize"] = func(fr *frame, a []value) value { return int64(64) }
}
