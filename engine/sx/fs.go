package sx

// In-memory file system model behind the os package (per path state). Paths
// are string values (usually concrete, possibly symbolic: object paths built
// from a symbolic hash); contents are String terms; modes are Int terms.

import (
	"math/big"
	"fmt"
	"go/types"
	"strings"
)

type fsFile struct {
	path    value
	content value // string | *Sym
	mode    value // permission bits (int64 | *Sym)
	isDir   bool
	dead    bool
	nlink   *fsFile // hard link target (shares content): nil for ordinary files
	born    value   // the last clock reading before the file was created in this run (nil: unknown / set up by the harness)
}

type fsState struct {
	files   []*fsFile
	dirs    map[string]bool
	tmpN    int
	ops     int  // mutating operations so far
	crashAt int  // 0 = never; otherwise crash before the n-th mutating operation
	faults  bool // nondeterministic failures of mutating operations
	log     []string
}

type fileHandle struct {
	f      *fsFile
	name   value
	pos    value
	flags  int64
	closed bool
	rd, wr bool
}

type fileInfo struct {
	name  value
	size  value
	mode  value
	isDir bool
	born  value
}

func (i *interpreter) fs() *fsState {
	if i.fsSt == nil {
		i.fsSt = &fsState{dirs: map[string]bool{}}
	}
	return i.fsSt
}

func (f *fsFile) target() *fsFile {
	for f.nlink != nil {
		f = f.nlink
	}
	return f
}

// leadConcrete returns the leading concrete text of a path value.
func leadConcrete(v value) (string, bool) {
	switch v := v.(type) {
	case string:
		return v, true
	case *Sym:
		segs := segmentsOf(v)
		if len(segs) > 0 {
			if c, ok := segs[0].(string); ok {
				return c, false
			}
		}
	}
	return "", false
}

// pathEq decides (forking if needed) whether two paths are the same file.
func (i *interpreter) pathEq(a, b value) bool {
	ac, aok := a.(string)
	bc, bok := b.(string)
	if aok && bok {
		return ac == bc
	}
	la, fa := leadConcrete(a)
	lb, fb := leadConcrete(b)
	// different concrete prefixes can never be equal
	n := len(la)
	if len(lb) < n {
		n = len(lb)
	}
	if la[:n] != lb[:n] {
		return false
	}
	if fa && len(la) < len(lb) || fb && len(lb) < len(la) {
		return false
	}
	return i.branch(mkStrEq(a, b))
}

func (i *interpreter) fsLookup(path value) *fsFile {
	st := i.fs()
	for _, f := range st.files {
		if f.dead {
			continue
		}
		if i.pathEq(f.path, path) {
			return f
		}
	}
	return nil
}

func (i *interpreter) fsIsDir(path value) bool {
	if c, ok := path.(string); ok {
		c = strings.TrimRight(c, "/")
		if i.fs().dirs[c] && c != "" {
			return true
		}
	}
	return false
}

func (i *interpreter) fsMkdirAll(path string) {
	st := i.fs()
	path = strings.TrimRight(path, "/")
	for path != "" && path != "/" {
		st.dirs[path] = true
		k := strings.LastIndex(path, "/")
		if k <= 0 {
			break
		}
		path = path[:k]
	}
}

// mutate is called before every state-changing operation: crash injection and
// fault injection hook in here. It returns an error value when the operation
// is made to fail.
func (i *interpreter) fsMutate(op string, path value) value {
	st := i.fs()
	st.ops++
	if st.crashAt > 0 && st.ops == st.crashAt {
		i.crashed = true
		panic(pathEnd{reason: "crash", detail: fmt.Sprintf("before %s #%d", op, st.ops)})
	}
	st.log = append(st.log, op+" "+toString(path))
	if st.faults {
		fail := i.path.input("fs.fault", SBool)
		if i.branch(fail) {
			return i.pathError(op, path, "ErrPermission")
		}
	}
	return nil
}

func (i *interpreter) pathError(op string, path value, which string) value {
	t := i.namedType("io/fs", "PathError")
	inner := i.globalValue("io/fs", which)
	cell := value(structure{op, path, inner})
	return iface{t: types.NewPointer(t), v: &cell}
}

func (i *interpreter) fileValue(h *fileHandle) value { return &nativeObj{kind: "osfile", v: h} }

func (i *interpreter) fileIface(h *fileHandle) value {
	return iface{t: types.NewPointer(i.namedType("os", "File")), v: i.fileValue(h)}
}

func handleOf(v value) *fileHandle {
	no, ok := v.(*nativeObj)
	if !ok || no == nil {
		if p, isP := v.(*value); isP && p == nil {
			rtPanic("invalid memory address or nil pointer dereference (nil *os.File)")
		}
		unsup("*os.File receiver is %T", v)
	}
	return no.v.(*fileHandle)
}

const (
	oWRONLY = 0x1
	oRDWR   = 0x2
	oAPPEND = 0x400
	oCREATE = 0x40
	oEXCL   = 0x80
	oTRUNC  = 0x200
)

func (i *interpreter) fsOpen(path value, flags int64, perm value) (value, value) {
	if c, ok := path.(string); ok && i.fsIsDir(c) {
		h := &fileHandle{f: &fsFile{path: path, content: "", mode: int64(0755), isDir: true}, name: path, pos: int64(0), rd: true}
		return i.fileValue(h), nilErr()
	}
	f := i.fsLookup(path)
	if f == nil {
		if flags&oCREATE == 0 {
			return (*value)(nil), i.pathError("open", path, "ErrNotExist")
		}
		if e := i.fsMutate("create", path); e != nil {
			return (*value)(nil), e
		}
		f = &fsFile{path: path, content: "", mode: perm, born: i.lastNow}
		i.fs().files = append(i.fs().files, f)
	} else {
		if flags&oCREATE != 0 && flags&oEXCL != 0 {
			return (*value)(nil), i.pathError("open", path, "ErrExist")
		}
		if flags&(oWRONLY|oRDWR) != 0 {
			// writing requires an owner write bit
			m := f.target().mode
			var w value
			if mc, ok := m.(int64); ok {
				w = mc&0200 != 0
			} else {
				w = i.path.mkIntCmp("=", i.path.symBitop(tokenAND, m, int64(0200), types.Typ[types.Uint32]), int64(0200))
			}
			if !i.branch(w) {
				return (*value)(nil), i.pathError("open", path, "ErrPermission")
			}
		}
		if flags&oTRUNC != 0 && flags&(oWRONLY|oRDWR) != 0 {
			if e := i.fsMutate("truncate", path); e != nil {
				return (*value)(nil), e
			}
			f.target().content = ""
		}
	}
	h := &fileHandle{f: f, name: path, pos: int64(0), flags: flags}
	h.rd = flags&oWRONLY == 0
	h.wr = flags&(oWRONLY|oRDWR) != 0
	return i.fileValue(h), nilErr()
}

func (i *interpreter) fileRead(h *fileHandle, dst *byteSlice) value {
	p := i.path
	if h.closed {
		return tuple{int64(0), i.pathError("read", h.name, "ErrClosed")}
	}
	if !h.rd {
		return tuple{int64(0), i.pathError("read", h.name, "ErrPermission")}
	}
	content := h.f.target().content
	size := p.mkLen(content)
	remaining := p.mkSub(size, h.pos)
	var dl value = int64(0)
	if dst != nil {
		dl = dst.len
	}
	if !i.branch(p.mkIntCmp(">", dl, int64(0))) {
		return tuple{int64(0), nilErr()}
	}
	if !i.branch(p.mkIntCmp(">", remaining, int64(0))) {
		return tuple{int64(0), i.globalValue("io", "EOF")}
	}
	rest := p.mkSubstr(content, h.pos, remaining)
	n := i.byteCopy(dst, rest)
	h.pos = p.mkAdd(h.pos, n)
	return tuple{n, nilErr()}
}

func (i *interpreter) fileWrite(h *fileHandle, data value) value {
	p := i.path
	if h.closed {
		return tuple{int64(0), i.pathError("write", h.name, "ErrClosed")}
	}
	if !h.wr {
		return tuple{int64(0), i.pathError("write", h.name, "ErrPermission")}
	}
	n := p.mkLen(data)
	if nc, ok := n.(int64); ok && nc == 0 {
		return tuple{int64(0), nilErr()}
	}
	if e := i.fsMutate("write", h.name); e != nil {
		return tuple{int64(0), e}
	}
	t := h.f.target()
	size := p.mkLen(t.content)
	if h.flags&oAPPEND != 0 {
		h.pos = size
	}
	// content[:pos] ++ data ++ content[pos+n:] (if any)
	if !i.branch(p.mkIntCmp("<=", h.pos, size)) {
		// writing beyond the end: the gap reads as zero bytes
		gap := p.mkSub(h.pos, size)
		z := p.freshVar("gap", SStr)
		p.pc = append(p.pc, "(= (str.len "+z.e+") "+tInt(gap)+")")
		z.ln = gap
		p.classCons = append(p.classCons, classCon{z, "(re.* (str.to_re \"\\u{0}\"))", "zeros"})
		t.content = i.compact(mkConcat(t.content, z))
		size = h.pos
	}
	pre := p.mkSubstr(t.content, int64(0), h.pos)
	end := p.mkAdd(h.pos, n)
	var post value = ""
	if i.branch(p.mkIntCmp("<", end, size)) {
		post = p.mkSubstr(t.content, end, p.mkSub(size, end))
	}
	t.content = i.compact(mkConcat(mkConcat(pre, data), post))
	h.pos = end
	return tuple{n, nilErr()}
}

func (i *interpreter) infoOf(f *fsFile, name value) value {
	t := f.target()
	fi := &fileInfo{name: name, size: i.path.mkLen(t.content), mode: t.mode, isDir: f.isDir, born: t.born}
	return iface{t: types.NewPointer(i.namedType("os", "fileStat")), v: &nativeObj{kind: "fileinfo", v: fi}}
}

func (i *interpreter) fsStat(path value) value {
	if c, ok := path.(string); ok && i.fsIsDir(c) {
		fi := &fileInfo{name: path, size: int64(4096), mode: int64(0755), isDir: true}
		return tuple{iface{t: types.NewPointer(i.namedType("os", "fileStat")), v: &nativeObj{kind: "fileinfo", v: fi}}, nilErr()}
	}
	f := i.fsLookup(path)
	if f == nil {
		return tuple{iface{}, i.pathError("stat", path, "ErrNotExist")}
	}
	return tuple{i.infoOf(f, path), nilErr()}
}

func baseName(v value) value {
	if c, ok := v.(string); ok {
		if k := strings.LastIndex(c, "/"); k >= 0 {
			return c[k+1:]
		}
		return c
	}
	return v
}

func init() {
	reg := func(name string, h intrinsic) { intrinsics[name] = h }
	both := func(method string, h func(fr *frame, a []value) value) {
		intrinsics["(*os.File)."+method] = h
		nativeMethods["osfile."+method] = h
	}
	reg("os.Stat", func(fr *frame, a []value) value { return fr.i.fsStat(a[0]) })
	reg("os.Lstat", func(fr *frame, a []value) value { return fr.i.fsStat(a[0]) })
	reg("os.Open", func(fr *frame, a []value) value {
		f, e := fr.i.fsOpen(a[0], 0, int64(0))
		return tuple{f, e}
	})
	reg("os.Create", func(fr *frame, a []value) value {
		f, e := fr.i.fsOpen(a[0], oRDWR|oCREATE|oTRUNC, int64(0666))
		return tuple{f, e}
	})
	reg("os.OpenFile", func(fr *frame, a []value) value {
		flags := fr.i.concreteInt(a[1], "open flags")
		f, e := fr.i.fsOpen(a[0], flags, a[2])
		return tuple{f, e}
	})
	reg("os.CreateTemp", func(fr *frame, a []value) value {
		i := fr.i
		st := i.fs()
		st.tmpN++
		var dir value = a[0]
		if d, ok := dir.(string); ok && d == "" {
			dir = "/verifroot/ostmp"
		}
		pat := a[1]
		pre, suf := pat, value("")
		if pc, ok := pat.(string); ok {
			if k := strings.LastIndex(pc, "*"); k >= 0 {
				pre, suf = pc[:k], pc[k+1:]
			}
		}
		name := mkConcat(mkConcat(mkConcat(mkConcat(dir, "/"), pre), fmt.Sprintf("verif%d", st.tmpN)), suf)
		f, e := i.fsOpen(name, oRDWR|oCREATE|oEXCL, int64(0600))
		return tuple{f, e}
	})
	reg("os.ReadFile", func(fr *frame, a []value) value {
		i := fr.i
		f := i.fsLookup(a[0])
		if f == nil {
			return tuple{(*byteSlice)(nil), i.pathError("open", a[0], "ErrNotExist")}
		}
		return tuple{i.newBytes(f.target().content), nilErr()}
	})
	reg("os.WriteFile", func(fr *frame, a []value) value {
		i := fr.i
		fv, e := i.fsOpen(a[0], oWRONLY|oCREATE|oTRUNC, a[2])
		if e.(iface).t != nil {
			return e
		}
		h := handleOf(fv)
		res := i.fileWrite(h, i.strArg(a[1])).(tuple)
		return res[1]
	})
	reg("os.Remove", func(fr *frame, a []value) value {
		i := fr.i
		f := i.fsLookup(a[0])
		if f == nil {
			return i.pathError("remove", a[0], "ErrNotExist")
		}
		if e := i.fsMutate("remove", a[0]); e != nil {
			return e
		}
		f.dead = true
		return nilErr()
	})
	reg("os.RemoveAll", func(fr *frame, a []value) value {
		i := fr.i
		f := i.fsLookup(a[0])
		if f == nil {
			if c, ok := a[0].(string); ok && i.fsIsDir(c) {
				if e := i.fsMutate("removeall", a[0]); e != nil {
					return e
				}
				for _, g := range i.fs().files {
					if gc, ok := g.path.(string); ok && strings.HasPrefix(gc, c+"/") {
						g.dead = true
					} else if lc, _ := leadConcrete(g.path); strings.HasPrefix(lc, c+"/") {
						g.dead = true
					}
				}
				delete(i.fs().dirs, c)
			}
			return nilErr()
		}
		if e := i.fsMutate("remove", a[0]); e != nil {
			return e
		}
		f.dead = true
		return nilErr()
	})
	reg("os.Rename", func(fr *frame, a []value) value {
		i := fr.i
		src := i.fsLookup(a[0])
		if src == nil {
			return i.linkError("rename", a[0], a[1], "ErrNotExist")
		}
		if e := i.fsMutate("rename", a[1]); e != nil {
			return e
		}
		if dst := i.fsLookup(a[1]); dst != nil && dst != src {
			dst.dead = true
		}
		src.path = a[1]
		return nilErr()
	})
	reg("os.Link", func(fr *frame, a []value) value {
		i := fr.i
		src := i.fsLookup(a[0])
		if src == nil {
			return i.linkError("link", a[0], a[1], "ErrNotExist")
		}
		if i.fsLookup(a[1]) != nil {
			return i.linkError("link", a[0], a[1], "ErrExist")
		}
		if e := i.fsMutate("link", a[1]); e != nil {
			return e
		}
		i.fs().files = append(i.fs().files, &fsFile{path: a[1], nlink: src.target()})
		return nilErr()
	})
	reg("os.MkdirAll", func(fr *frame, a []value) value {
		if c, ok := a[0].(string); ok {
			fr.i.fsMkdirAll(c)
		}
		return nilErr()
	})
	reg("os.Mkdir", func(fr *frame, a []value) value {
		if c, ok := a[0].(string); ok {
			fr.i.fsMkdirAll(c)
		}
		return nilErr()
	})
	reg("os.Chmod", func(fr *frame, a []value) value {
		i := fr.i
		f := i.fsLookup(a[0])
		if f == nil {
			return i.pathError("chmod", a[0], "ErrNotExist")
		}
		if e := i.fsMutate("chmod", a[0]); e != nil {
			return e
		}
		f.target().mode = a[1]
		return nilErr()
	})
	reg("os.Chtimes", func(fr *frame, a []value) value { return nilErr() })
	reg("os.IsNotExist", func(fr *frame, a []value) value { return fr.i.errIs(a[0], "ErrNotExist") })
	reg("os.IsExist", func(fr *frame, a []value) value { return fr.i.errIs(a[0], "ErrExist") })
	reg("os.IsPermission", func(fr *frame, a []value) value { return fr.i.errIs(a[0], "ErrPermission") })
	reg("os.Getwd", func(fr *frame, a []value) value { return tuple{"/verifroot/work", nilErr()} })
	reg("os.TempDir", func(fr *frame, a []value) value { return "/verifroot/ostmp" })

	both("Read", func(fr *frame, a []value) value {
		dst, _ := a[1].(*byteSlice)
		return fr.i.fileRead(handleOf(a[0]), dst)
	})
	both("Write", func(fr *frame, a []value) value {
		return fr.i.fileWrite(handleOf(a[0]), fr.i.strArg(a[1]))
	})
	both("WriteString", func(fr *frame, a []value) value {
		return fr.i.fileWrite(handleOf(a[0]), a[1])
	})
	both("Close", func(fr *frame, a []value) value {
		if p, isP := a[0].(*value); isP && p == nil {
			// (*os.File)(nil).Close() returns os.ErrInvalid
			return fr.i.globalValue("io/fs", "ErrInvalid")
		}
		h := handleOf(a[0])
		if h.closed {
			return fr.i.pathError("close", h.name, "ErrClosed")
		}
		h.closed = true
		return nilErr()
	})
	both("Name", func(fr *frame, a []value) value { return handleOf(a[0]).name })
	both("Sync", func(fr *frame, a []value) value { return nilErr() })
	both("Fd", func(fr *frame, a []value) value { return int64(3) })
	both("Chmod", func(fr *frame, a []value) value {
		h := handleOf(a[0])
		h.f.target().mode = a[1]
		return nilErr()
	})
	both("Stat", func(fr *frame, a []value) value {
		h := handleOf(a[0])
		return tuple{fr.i.infoOf(h.f, h.name), nilErr()}
	})
	both("Seek", func(fr *frame, a []value) value {
		i := fr.i
		h := handleOf(a[0])
		whence := i.concreteInt(a[2], "whence")
		size := i.path.mkLen(h.f.target().content)
		var np value
		switch whence {
		case 0:
			np = a[1]
		case 1:
			np = i.path.mkAdd(h.pos, a[1])
		case 2:
			np = i.path.mkAdd(size, a[1])
		}
		if !i.branch(i.path.mkIntCmp(">=", np, int64(0))) {
			return tuple{int64(0), i.pathError("seek", h.name, "ErrInvalid")}
		}
		h.pos = np
		return tuple{np, nilErr()}
	})
	both("Truncate", func(fr *frame, a []value) value {
		i := fr.i
		h := handleOf(a[0])
		if e := i.fsMutate("truncate", h.name); e != nil {
			return e
		}
		t := h.f.target()
		size := i.path.mkLen(t.content)
		if !i.branch(i.path.mkIntCmp("<=", a[1], size)) {
			unsup("Truncate growing a file")
		}
		t.content = i.path.mkSubstr(t.content, int64(0), a[1])
		return nilErr()
	})
	// FileInfo
	fi := func(v value) *fileInfo { return v.(*nativeObj).v.(*fileInfo) }
	nativeMethods["fileinfo.Size"] = func(fr *frame, a []value) value { return fi(a[0]).size }
	nativeMethods["fileinfo.Mode"] = func(fr *frame, a []value) value {
		f := fi(a[0])
		if f.isDir {
			return int64(1<<31 | 0755)
		}
		return f.mode
	}
	nativeMethods["fileinfo.IsDir"] = func(fr *frame, a []value) value { return fi(a[0]).isDir }
	nativeMethods["fileinfo.Name"] = func(fr *frame, a []value) value { return baseName(fi(a[0]).name) }
	// ModTime: some instant not before the last clock reading that preceded the
	// file's creation in this run (any instant for files the harness set up)
	// and not after any later clock reading
	nativeMethods["fileinfo.ModTime"] = func(fr *frame, a []value) value {
		i := fr.i
		p := i.path
		m := p.input("fs.mtime", SInt)
		base, _ := new(big.Int).SetString("63713433600000000000", 10)
		top, _ := new(big.Int).SetString("69400000000000000000", 10)
		p.pc = append(p.pc, "(<= "+base.String()+" "+m.e+")", "(<= "+m.e+" "+top.String()+")")
		p.varIv[m.e] = ival{base, top}
		if b := fi(a[0]).born; b != nil {
			p.pc = append(p.pc, "(<= "+tInt(b)+" "+m.e+")")
		}
		if i.lastNow != nil {
			i.lastNow = &Sym{sort: SInt, e: "(ite (< " + tInt(i.lastNow) + " " + m.e + ") " + m.e + " " + tInt(i.lastNow) + ")", lo: base, hi: top}
		} else {
			i.lastNow = m
		}
		return mkTime(m)
	}
	nativeMethods["fileinfo.Sys"] = func(fr *frame, a []value) value { return iface{} }
	reg("(io/fs.FileMode).IsRegular", func(fr *frame, a []value) value {
		if c, ok := a[0].(int64); ok {
			return c&(1<<31|1<<27|1<<26|1<<25|1<<24|1<<21|1<<19) == 0
		}
		return true // symbolic modes are permission bits of regular files
	})
	reg("(io/fs.FileMode).IsDir", func(fr *frame, a []value) value {
		if c, ok := a[0].(int64); ok {
			return c&(1<<31) != 0
		}
		return false
	})
	reg("(io/fs.FileMode).Perm", func(fr *frame, a []value) value {
		if c, ok := a[0].(int64); ok {
			return c & 0777
		}
		return a[0]
	})
}

func (i *interpreter) linkError(op string, oldp, newp value, which string) value {
	t := i.namedType("os", "LinkError")
	inner := i.globalValue("io/fs", which)
	cell := value(structure{op, oldp, newp, inner})
	return iface{t: types.NewPointer(t), v: &cell}
}

// errIs: does the error (a *PathError / *LinkError / plain) wrap the given io/fs sentinel?
func (i *interpreter) errIs(e value, which string) value {
	itf, ok := e.(iface)
	if !ok || itf.t == nil {
		return false
	}
	target := i.globalValue("io/fs", which).(iface)
	for depth := 0; depth < 6; depth++ {
		if itf.t == nil {
			return false
		}
		if pv, ok := itf.v.(*value); ok && pv == target.v.(*value) {
			return true
		}
		name := itf.t.String()
		pv, ok := itf.v.(*value)
		if !ok || pv == nil {
			return false
		}
		s, ok := (*pv).(structure)
		if !ok {
			return false
		}
		switch {
		case strings.HasSuffix(name, "fs.PathError"):
			itf, _ = s[2].(iface)
		case strings.HasSuffix(name, "os.LinkError"):
			itf, _ = s[3].(iface)
		case strings.HasSuffix(name, "os.SyscallError"):
			itf, _ = s[1].(iface)
		default:
			return false
		}
	}
	return false
}
