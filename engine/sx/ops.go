package sx

import (
	"fmt"
	"go/constant"
	"go/token"
	"go/types"
	"math/big"
	"unicode/utf8"

	"golang.org/x/tools/go/ssa"
)

func constantBool(c *ssa.Const) bool { return constant.BoolVal(c.Value) }
func constantString(c *ssa.Const) string {
	if c.Value.Kind() == constant.String {
		return constant.StringVal(c.Value)
	}
	return string(rune(c.Int64()))
}

// intInfo returns width and signedness of an integer type.
func intInfo(t types.Type) (bits uint, signed bool) {
	b, ok := t.Underlying().(*types.Basic)
	if !ok {
		return 64, true
	}
	switch b.Kind() {
	case types.Int8:
		return 8, true
	case types.Int16:
		return 16, true
	case types.Int32, types.UntypedRune:
		return 32, true
	case types.Int, types.Int64, types.UntypedInt:
		return 64, true
	case types.Uint8:
		return 8, false
	case types.Uint16:
		return 16, false
	case types.Uint32:
		return 32, false
	case types.Uint, types.Uint64, types.Uintptr:
		return 64, false
	}
	return 64, true
}

// norm wraps a concrete result to the type's width.
func norm(v int64, bits uint, signed bool) int64 {
	switch bits {
	case 8:
		if signed {
			return int64(int8(v))
		}
		return int64(uint8(v))
	case 16:
		if signed {
			return int64(int16(v))
		}
		return int64(uint16(v))
	case 32:
		if signed {
			return int64(int32(v))
		}
		return int64(uint32(v))
	}
	return v
}

func typeRange(bits uint, signed bool) (lo, hi *big.Int) {
	if signed {
		hi = new(big.Int).Lsh(bigOne, bits-1)
		lo = new(big.Int).Neg(hi)
		hi = new(big.Int).Sub(hi, bigOne)
		return
	}
	hi = new(big.Int).Lsh(bigOne, bits)
	hi.Sub(hi, bigOne)
	return big.NewInt(0), hi
}

// wrapSym wraps a mathematical-integer term to the Go type unless the
// interval analysis shows it is in range.
func (p *Path) wrapSym(v value, t types.Type) value {
	s, ok := v.(*Sym)
	if !ok {
		bits, signed := intInfo(t)
		return norm(v.(int64), bits, signed)
	}
	bits, signed := intInfo(t)
	lo, hi := typeRange(bits, signed)
	sl, sh := p.ivOf(s)
	if sl != nil && sh != nil && sl.Cmp(lo) >= 0 && sh.Cmp(hi) <= 0 {
		return s
	}
	mod := new(big.Int).Lsh(bigOne, bits)
	p.ex.noteWrap()
	if signed {
		half := new(big.Int).Lsh(bigOne, bits-1)
		return &Sym{sort: SInt, e: "(- (mod (+ " + s.e + " " + half.String() + ") " + mod.String() + ") " + half.String() + ")", lo: lo, hi: hi}
	}
	return &Sym{sort: SInt, e: "(mod " + s.e + " " + mod.String() + ")", lo: lo, hi: hi}
}

func isStringType(t types.Type) bool {
	b, ok := t.Underlying().(*types.Basic)
	return ok && b.Info()&types.IsString != 0
}

func isUnsigned(t types.Type) bool {
	b, ok := t.Underlying().(*types.Basic)
	return ok && b.Info()&types.IsUnsigned != 0
}

func (i *interpreter) binop(op token.Token, t types.Type, x, y value) value {
	p := i.path
	i.checkPoison(x, "binop")
	i.checkPoison(y, "binop")
	switch op {
	case token.EQL:
		return i.eqnil(t, x, y)
	case token.NEQ:
		return mkNot(i.eqnil(t, x, y))
	}
	// floats: concrete only
	if xf, ok := x.(float64); ok {
		yf := y.(float64)
		switch op {
		case token.ADD:
			return xf + yf
		case token.SUB:
			return xf - yf
		case token.MUL:
			return xf * yf
		case token.QUO:
			return xf / yf
		case token.LSS:
			return xf < yf
		case token.LEQ:
			return xf <= yf
		case token.GTR:
			return xf > yf
		case token.GEQ:
			return xf >= yf
		}
		unsup("float op %s", op)
	}
	// strings
	if sortOfOK(x) == SStr || sortOfOK(y) == SStr {
		switch op {
		case token.ADD:
			return mkConcat(x, y)
		case token.LSS:
			return mkStrLt(x, y)
		case token.LEQ:
			return mkStrLe(x, y)
		case token.GTR:
			return mkStrLt(y, x)
		case token.GEQ:
			return mkStrLe(y, x)
		}
		unsup("string op %s", op)
	}
	bits, signed := intInfo(t)
	xc, xok := x.(int64)
	yc, yok := y.(int64)
	if xok && yok {
		return concreteIntOp(op, xc, yc, bits, signed)
	}
	switch op {
	case token.ADD:
		return p.wrapSym(p.mkAdd(x, y), t)
	case token.SUB:
		return p.wrapSym(p.mkSub(x, y), t)
	case token.MUL:
		return p.wrapSym(p.mkMul(x, y), t)
	case token.LSS:
		return p.mkIntCmp("<", x, y)
	case token.LEQ:
		return p.mkIntCmp("<=", x, y)
	case token.GTR:
		return p.mkIntCmp(">", x, y)
	case token.GEQ:
		return p.mkIntCmp(">=", x, y)
	case token.QUO, token.REM:
		// division by zero check
		if !i.branch(mkNot(p.mkIntCmp("=", y, int64(0)))) {
			rtPanic("integer divide by zero")
		}
		return p.symDivRem(op, x, y, t)
	case token.AND, token.OR, token.XOR, token.AND_NOT:
		return p.symBitop(op, x, y, t)
	case token.SHL, token.SHR:
		return i.symShift(op, x, y, t)
	}
	panic(fmt.Sprintf("invalid binary op: %T %s %T", x, op, y))
}

func sortOfOK(v value) Sort {
	switch v := v.(type) {
	case string:
		return SStr
	case *Sym:
		return v.sort
	case bool:
		return SBool
	}
	return SInt
}

func concreteIntOp(op token.Token, x, y int64, bits uint, signed bool) value {
	ux, uy := uint64(x), uint64(y)
	switch op {
	case token.ADD:
		return norm(x+y, bits, signed)
	case token.SUB:
		return norm(x-y, bits, signed)
	case token.MUL:
		return norm(x*y, bits, signed)
	case token.QUO:
		if y == 0 {
			rtPanic("integer divide by zero")
		}
		if signed {
			return norm(x/y, bits, signed)
		}
		return norm(int64(ux/uy), bits, signed)
	case token.REM:
		if y == 0 {
			rtPanic("integer divide by zero")
		}
		if signed {
			return norm(x%y, bits, signed)
		}
		return norm(int64(ux%uy), bits, signed)
	case token.AND:
		return x & y
	case token.OR:
		return x | y
	case token.XOR:
		return norm(x^y, bits, signed)
	case token.AND_NOT:
		return x &^ y
	case token.SHL:
		if y < 0 {
			rtPanic("negative shift amount")
		}
		if uy >= 64 {
			return int64(0)
		}
		return norm(int64(ux<<uy), bits, signed)
	case token.SHR:
		if y < 0 {
			rtPanic("negative shift amount")
		}
		if signed {
			if uy >= 64 {
				if x < 0 {
					return int64(-1)
				}
				return int64(0)
			}
			return x >> uy
		}
		if uy >= 64 {
			return int64(0)
		}
		return int64(ux >> uy)
	case token.LSS:
		if signed {
			return x < y
		}
		return ux < uy
	case token.LEQ:
		if signed {
			return x <= y
		}
		return ux <= uy
	case token.GTR:
		if signed {
			return x > y
		}
		return ux > uy
	case token.GEQ:
		if signed {
			return x >= y
		}
		return ux >= uy
	}
	panic("concreteIntOp " + op.String())
}

// symDivRem: Go truncated division from SMT floor division.
func (p *Path) symDivRem(op token.Token, x, y value, t types.Type) value {
	xl, _ := p.ivOf(x)
	yl, _ := p.ivOf(y)
	nonneg := xl != nil && xl.Sign() >= 0 && yl != nil && yl.Sign() >= 0
	xs, ys := tInt(x), tInt(y)
	if nonneg {
		if op == token.QUO {
			_, xh := p.ivOf(x)
			return &Sym{sort: SInt, e: "(div " + xs + " " + ys + ")", lo: bigZero, hi: xh}
		}
		_, yh := p.ivOf(y)
		var hi *big.Int
		if yh != nil {
			hi = new(big.Int).Sub(yh, bigOne)
		}
		return &Sym{sort: SInt, e: "(mod " + xs + " " + ys + ")", lo: bigZero, hi: hi}
	}
	// truncated: q = sgn(x)*sgn(y) * (|x| div |y|), r = x - q*y
	q := "(let ((ax (abs " + xs + ")) (ay (abs " + ys + "))) (ite (= (>= " + xs + " 0) (>= " + ys + " 0)) (div ax ay) (- (div ax ay))))"
	if op == token.QUO {
		return p.wrapSym(&Sym{sort: SInt, e: q}, t)
	}
	return &Sym{sort: SInt, e: "(- " + xs + " (* " + q + " " + ys + "))"}
}

// symBitop supports masks by constants of the forms 2^k-1, single bits, and
// general constants on non-negative operands through div/mod decomposition.
func (p *Path) symBitop(op token.Token, x, y value, t types.Type) value {
	// put the constant on the right
	if _, ok := x.(int64); ok {
		if op == token.AND_NOT {
			unsup("const &^ sym")
		}
		x, y = y, x
	}
	yc, ok := y.(int64)
	xs := x.(*Sym)
	xl, xh := p.ivOf(xs)
	if !ok || xl == nil || xl.Sign() < 0 {
		// general case through bit-vectors of the type's width
		bits, signed := intInfo(t)
		bv := func(v value) string { return "((_ int2bv " + itoa(int(bits)) + ") " + tInt(v) + ")" }
		opn := map[token.Token]string{token.AND: "bvand", token.OR: "bvor", token.XOR: "bvxor"}[op]
		yt := bv(y)
		if op == token.AND_NOT {
			opn = "bvand"
			yt = "(bvnot " + yt + ")"
		}
		r := "(bv2nat (" + opn + " " + bv(x) + " " + yt + "))"
		lo, hi := typeRange(bits, false)
		res := &Sym{sort: SInt, e: r, lo: lo, hi: hi}
		if signed {
			// reinterpret as two's complement
			half := new(big.Int).Lsh(bigOne, bits-1)
			mod := new(big.Int).Lsh(bigOne, bits)
			slo, shi := typeRange(bits, true)
			return &Sym{sort: SInt, e: "(ite (>= " + r + " " + half.String() + ") (- " + r + " " + mod.String() + ") " + r + ")", lo: slo, hi: shi}
		}
		return res
	}
	nb := 64
	if xh != nil {
		nb = xh.BitLen()
		if nb == 0 {
			nb = 1
		}
	}
	if op == token.AND_NOT {
		op = token.AND
		yc = ^yc
	}
	if op == token.AND && yc < 0 {
		// mask with high bits set: restrict to the operand's bit length
		yc &= (1 << uint(nb)) - 1
	}
	if yc < 0 {
		unsup("bit operation with negative constant")
	}
	// per-bit decomposition: bit_k(x) = (mod (div x 2^k) 2)
	maxb := nb
	if bl := bi(yc).BitLen(); bl > maxb && op != token.AND {
		maxb = bl
	}
	if op == token.AND {
		// fast path: mask 2^k-1
		if yc&(yc+1) == 0 {
			return &Sym{sort: SInt, e: "(mod " + xs.e + " " + smtInt(yc+1) + ")", lo: bigZero, hi: bi(yc)}
		}
		expr := "0"
		for k := 0; k < maxb && k < 63; k++ {
			if yc&(1<<uint(k)) != 0 {
				expr = "(+ " + expr + " (* " + smtInt(1<<uint(k)) + " (mod (div " + xs.e + " " + smtInt(1<<uint(k)) + ") 2)))"
			}
		}
		return &Sym{sort: SInt, e: expr, lo: bigZero, hi: bi(yc)}
	}
	if op == token.OR {
		// x | c = x + (c &^ x) = x + sum over bits of c not set in x
		expr := xs.e
		for k := 0; k < 63; k++ {
			if yc&(1<<uint(k)) != 0 {
				expr = "(+ " + expr + " (* " + smtInt(1<<uint(k)) + " (- 1 (mod (div " + xs.e + " " + smtInt(1<<uint(k)) + ") 2))))"
			}
		}
		var hi *big.Int
		if xh != nil {
			hi = new(big.Int).Add(xh, bi(yc))
		}
		return &Sym{sort: SInt, e: expr, lo: xl, hi: hi}
	}
	if op == token.XOR {
		expr := xs.e
		for k := 0; k < 63; k++ {
			if yc&(1<<uint(k)) != 0 {
				b := "(mod (div " + xs.e + " " + smtInt(1<<uint(k)) + ") 2)"
				expr = "(+ " + expr + " (* " + smtInt(1<<uint(k)) + " (- 1 (* 2 " + b + "))))"
			}
		}
		return p.wrapSym(&Sym{sort: SInt, e: expr}, t)
	}
	unsup("bitop %s", op)
	return nil
}

func (i *interpreter) symShift(op token.Token, x, y value, t types.Type) value {
	p := i.path
	if yc, ok := y.(int64); ok {
		if yc < 0 {
			rtPanic("negative shift amount")
		}
		if yc >= 63 {
			unsup("symbolic shift by >= 63")
		}
		k := int64(1) << uint(yc)
		if op == token.SHL {
			return p.wrapSym(p.mkMul(x, k), t)
		}
		xl, _ := p.ivOf(x)
		if xl == nil || xl.Sign() < 0 {
			// arithmetic shift = floor division, which SMT div gives for positive divisor
			return &Sym{sort: SInt, e: "(div " + tInt(x) + " " + smtInt(k) + ")"}
		}
		_, xh := p.ivOf(x)
		var hi *big.Int
		if xh != nil {
			hi = new(big.Int).Rsh(xh, uint(yc))
		}
		return &Sym{sort: SInt, e: "(div " + tInt(x) + " " + smtInt(k) + ")", lo: bigZero, hi: hi}
	}
	// symbolic shift amount: 64-way ite over the amount
	ys := y.(*Sym)
	yl, yh := p.ivOf(ys)
	if yl == nil || yl.Sign() < 0 {
		if !isUnsigned(typeOfShiftCount(ys)) {
			if !i.branch(p.mkIntCmp(">=", ys, int64(0))) {
				rtPanic("negative shift amount")
			}
		}
	}
	maxk := int64(64)
	if yh != nil && yh.IsInt64() && yh.Int64() < 64 {
		maxk = yh.Int64() + 1
	}
	bits, _ := intInfo(t)
	var r value = int64(0) // shift >= width gives 0 (for SHL and unsigned SHR)
	if op == token.SHR {
		xl, _ := p.ivOf(x)
		if xl == nil || xl.Sign() < 0 {
			r = mkIte(p.mkIntCmp("<", x, int64(0)), int64(-1), int64(0))
		}
	}
	for k := maxk - 1; k >= 0; k-- {
		var vk value
		if k >= int64(bits) {
			continue
		}
		if k >= 63 {
			// 1<<63 does not fit int64 as a multiplier; handle through big constant
			if op == token.SHL {
				vk = p.wrapSym(&Sym{sort: SInt, e: "(* " + tInt(x) + " 9223372036854775808)"}, t)
			} else {
				vk = &Sym{sort: SInt, e: "(div " + tInt(x) + " 9223372036854775808)"}
			}
		} else {
			vk = i.symShift(op, x, k, t)
		}
		r = mkIte(p.mkIntCmp("=", ys, k), vk, r)
	}
	return r
}

func typeOfShiftCount(*Sym) types.Type { return types.Typ[types.Int] }

// eqnil: == with nil handling for reference types.
func (i *interpreter) eqnil(t types.Type, x, y value) value {
	switch t.Underlying().(type) {
	case *types.Map, *types.Signature, *types.Slice:
		return isNilRef(x) == isNilRef(y) && (isNilRef(x) || isNilRef(y))
	}
	return i.path.equalsV(t, x, y)
}

func isNilRef(v value) bool {
	switch v := v.(type) {
	case *omap:
		return v == nil
	case []value:
		return v == nil
	case *byteSlice:
		return v == nil
	case *ssa.Function:
		return v == nil
	case *closure:
		return v == nil
	case *nativeFn:
		return v == nil
	}
	return false
}

func (i *interpreter) unop(fr *frame, instr *ssa.UnOp, x value) value {
	switch instr.Op {
	case token.ARROW:
		return i.chanRecv(x.(*channel), instr)
	case token.SUB:
		switch x := x.(type) {
		case int64:
			bits, signed := intInfo(instr.Type())
			return norm(-x, bits, signed)
		case float64:
			return -x
		case *Sym:
			return i.path.wrapSym(i.path.mkSub(int64(0), x), instr.Type())
		}
	case token.MUL:
		return i.loadFrom(mustDeref(instr.X.Type()), x)
	case token.NOT:
		return mkNot(x)
	case token.XOR:
		switch x := x.(type) {
		case int64:
			bits, signed := intInfo(instr.Type())
			return norm(^x, bits, signed)
		case *Sym:
			if isUnsigned(instr.Type()) {
				unsup("^ on symbolic unsigned")
			}
			return i.path.mkSub(int64(-1), x)
		}
	}
	i.checkPoison(x, "unop")
	panic(fmt.Sprintf("invalid unary op %s %T", instr.Op, x))
}

func (i *interpreter) loadFrom(T types.Type, addr value) value {
	switch a := addr.(type) {
	case *value:
		if a == nil {
			rtPanic("invalid memory address or nil pointer dereference")
		}
		return load(T, a)
	case *bytePtr:
		return i.path.mkAt(a.arr.content, a.idx)
	case poison:
		unsup("load through poison pointer (%s)", a.why)
	}
	panic(fmt.Sprintf("load from %T", addr))
}

func (i *interpreter) storeTo(T types.Type, addr value, v value) {
	switch a := addr.(type) {
	case *value:
		if a == nil {
			rtPanic("invalid memory address or nil pointer dereference")
		}
		store(T, a, v)
		return
	case *bytePtr:
		i.byteStore(a.arr, a.idx, v)
		return
	case poison:
		unsup("store through poison pointer (%s)", a.why)
	}
	panic(fmt.Sprintf("store to %T", addr))
}

// concreteInt demands a concrete integer; a symbolic one whose value is
// forced by the path condition is not concretised (unsupported instead).
func (i *interpreter) concreteInt(v value, what string) int64 {
	switch v := v.(type) {
	case int64:
		return v
	case *Sym:
		lo, hi := i.path.ivOf(v)
		if lo != nil && hi != nil && lo.Cmp(hi) == 0 && lo.IsInt64() {
			return lo.Int64()
		}
		unsup("%s must be concrete, is %s", what, v.e)
	}
	i.checkPoison(v, what)
	panic(fmt.Sprintf("concreteInt(%s): %T", what, v))
}

func typeAssert(i *interpreter, instr *ssa.TypeAssert, itf iface) value {
	var v value
	err := ""
	if itf.t == nil {
		err = fmt.Sprintf("interface conversion: interface is nil, not %s", instr.AssertedType)
	} else if idst, ok := instr.AssertedType.Underlying().(*types.Interface); ok {
		v = itf
		if meth, _ := types.MissingMethod(itf.t, idst, true); meth != nil {
			err = fmt.Sprintf("interface conversion: %v is not %v: missing method %s", itf.t, idst, meth.Name())
		}
	} else if types.Identical(itf.t, instr.AssertedType) {
		v = itf.v
	} else {
		err = fmt.Sprintf("interface conversion: interface is %s, not %s", itf.t, instr.AssertedType)
	}
	if err != "" {
		if !instr.CommaOk {
			panic(targetPanic{runtime: true, msg: err})
		}
		return tuple{zero(instr.AssertedType), false}
	}
	if instr.CommaOk {
		return tuple{v, true}
	}
	return v
}

func (i *interpreter) lookup(instr *ssa.Lookup, x, idx value) value {
	switch x := x.(type) {
	case *omap:
		var v value
		ok := false
		if e := x.find(i, idx); e != nil {
			v, ok = copyVal(e.val), true
		}
		if !ok {
			v = zero(instr.X.Type().Underlying().(*types.Map).Elem())
		}
		if instr.CommaOk {
			return tuple{v, ok}
		}
		return v
	case string, *Sym:
		return i.index(x, idx)
	}
	i.checkPoison(x, "lookup")
	panic(fmt.Sprintf("unexpected x type in Lookup: %T", x))
}

func (i *interpreter) rangeIter(x value, t types.Type) iter {
	switch x := x.(type) {
	case *omap:
		if x == nil {
			return &mapIter{}
		}
		keys := x.live()
		if i.ex.ReverseMaps {
			for a, b := 0, len(keys)-1; a < b; a, b = a+1, b-1 {
				keys[a], keys[b] = keys[b], keys[a]
			}
		}
		return &mapIter{m: x, keys: keys}
	case string:
		return &stringIterU{s: x}
	case *Sym:
		unsup("range over symbolic string")
	}
	i.checkPoison(x, "range")
	panic(fmt.Sprintf("cannot range over %T", x))
}

type stringIterU struct {
	s   string
	pos int
}

func (it *stringIterU) next() tuple {
	if it.pos >= len(it.s) {
		return tuple{false, nil, nil}
	}
	r, n := utf8.DecodeRuneInString(it.s[it.pos:])
	k := it.pos
	it.pos += n
	return tuple{true, int64(k), int64(r)}
}

// ---------------------------------------------------------------- conversions

func (i *interpreter) conv(tDst, tSrc types.Type, x value) value {
	utSrc := tSrc.Underlying()
	utDst := tDst.Underlying()
	i.checkPoison(x, "conv")
	switch utSrc := utSrc.(type) {
	case *types.Pointer:
		if b, ok := utDst.(*types.Basic); ok && b.Kind() == types.UnsafePointer {
			return x
		}
	case *types.Slice:
		// []byte / []rune -> string
		if isByteSliceType(utSrc) {
			bs := x.(*byteSlice)
			if bs == nil {
				return ""
			}
			return i.path.mkSubstr(bs.arr.content, bs.off, bs.len)
		}
		if xs, ok := x.([]value); ok {
			var rs []rune
			for _, r := range xs {
				rs = append(rs, rune(i.concreteInt(r, "rune")))
			}
			return string(rs)
		}
	case *types.Basic:
		if utSrc.Kind() == types.UnsafePointer {
			return x
		}
		if utSrc.Info()&types.IsInteger != 0 {
			if b, ok := utDst.(*types.Basic); ok && b.Info()&types.IsString != 0 {
				return string(rune(i.concreteInt(x, "int->string")))
			}
		}
		if utSrc.Info()&types.IsString != 0 {
			switch utDst := utDst.(type) {
			case *types.Slice:
				if isByteSliceType(utDst) {
					n := i.path.mkLen(x)
					return &byteSlice{arr: &byteArr{content: x}, off: int64(0), len: n, cap: n}
				}
				s, ok := x.(string)
				if !ok {
					unsup("symbolic string -> []rune")
				}
				var res []value
				for _, r := range []rune(s) {
					res = append(res, int64(r))
				}
				return res
			case *types.Basic:
				if utDst.Info()&types.IsString != 0 {
					return x
				}
			}
			break
		}
		if utSrc.Info()&types.IsNumeric != 0 {
			db, ok := utDst.(*types.Basic)
			if !ok {
				break
			}
			switch xv := x.(type) {
			case int64:
				if db.Info()&types.IsFloat != 0 {
					if utSrc.Info()&types.IsUnsigned != 0 {
						return float64(uint64(xv))
					}
					return float64(xv)
				}
				if db.Info()&types.IsInteger != 0 {
					bits, signed := intInfo(db)
					return norm(xv, bits, signed)
				}
			case float64:
				if db.Info()&types.IsFloat != 0 {
					if db.Kind() == types.Float32 {
						return float64(float32(xv))
					}
					return xv
				}
				if db.Info()&types.IsInteger != 0 {
					bits, signed := intInfo(db)
					return norm(int64(xv), bits, signed)
				}
			case *Sym:
				if db.Info()&types.IsInteger != 0 {
					// int -> int conversion: re-wrap to destination; a signed
					// source reinterpreted as unsigned wraps mod 2^n, too
					return i.path.wrapSym(xv, db)
				}
				if db.Info()&types.IsFloat != 0 {
					unsup("symbolic int -> float")
				}
			}
		}
	}
	panic(fmt.Sprintf("unsupported conversion: %s -> %s, dynamic type %T", tSrc, tDst, x))
}

// ---------------------------------------------------------------- builtins

func (i *interpreter) callBuiltin(caller *frame, callpos token.Pos, fn *ssa.Builtin, args []value) value {
	p := i.path
	switch fn.Name() {
	case "append":
		if len(args) == 1 {
			return args[0]
		}
		switch a0 := args[0].(type) {
		case *byteSlice:
			return i.byteAppend(a0, args[1])
		case []value:
			switch a1 := args[1].(type) {
			case []value:
				return append(a0, copyVals(a1)...)
			}
		}
		i.checkPoison(args[0], "append")
		panic(fmt.Sprintf("append: %T %T", args[0], args[1]))

	case "copy":
		switch dst := args[0].(type) {
		case *byteSlice:
			return i.byteCopy(dst, args[1])
		case []value:
			src := args[1].([]value)
			return int64(copy(dst, copyVals(src)))
		}
		panic(fmt.Sprintf("copy: %T", args[0]))

	case "close":
		ch := args[0].(*channel)
		if ch == nil {
			rtPanic("close of nil channel")
		}
		if ch.closed {
			panic(targetPanic{runtime: true, msg: "close of closed channel"})
		}
		ch.closed = true
		return nil

	case "delete":
		m := args[0].(*omap)
		if m != nil {
			m.remove(i, args[1])
		}
		return nil

	case "print", "println":
		return nil

	case "len":
		switch x := args[0].(type) {
		case string, *Sym:
			return p.mkLen(x)
		case array:
			return int64(len(x))
		case byteArray:
			return x.n
		case *value:
			if ba, ok := (*x).(byteArray); ok {
				return ba.n
			}
			return int64(len((*x).(array)))
		case []value:
			return int64(len(x))
		case *byteSlice:
			if x == nil {
				return int64(0)
			}
			return x.len
		case *omap:
			if x == nil {
				return int64(0)
			}
			return int64(x.length())
		case *channel:
			if x == nil {
				return int64(0)
			}
			return int64(len(x.buf))
		}
		i.checkPoison(args[0], "len")
		panic(fmt.Sprintf("len: illegal operand: %T", args[0]))

	case "cap":
		switch x := args[0].(type) {
		case array:
			return int64(cap(x))
		case byteArray:
			return x.n
		case *value:
			if ba, ok := (*x).(byteArray); ok {
				return ba.n
			}
			return int64(cap((*x).(array)))
		case []value:
			return int64(cap(x))
		case *byteSlice:
			if x == nil {
				return int64(0)
			}
			return x.cap
		case *channel:
			return int64(x.cap)
		}
		panic(fmt.Sprintf("cap: illegal operand: %T", args[0]))

	case "min":
		r := args[0]
		for _, a := range args[1:] {
			if sortOfOK(r) == SStr {
				unsup("min on strings")
			}
			r = p.mkMin(r, a)
		}
		return r
	case "max":
		r := args[0]
		for _, a := range args[1:] {
			r = p.mkMax(r, a)
		}
		return r

	case "panic":
		panic(targetPanic{v: args[0]})

	case "recover":
		return doRecover(caller)

	case "ssa:wrapnilchk":
		recv := args[0]
		if pv, ok := recv.(*value); ok && pv == nil {
			rtPanic(fmt.Sprintf("value method (%s).%s called using nil pointer", toString(args[1]), toString(args[2])))
		}
		return recv

	case "ssa:deferstack":
		return &caller.defers
	}
	panic("unknown built-in: " + fn.Name())
}

func copyVals(xs []value) []value {
	r := make([]value, len(xs))
	for i, x := range xs {
		r[i] = copyVal(x)
	}
	return r
}

// ---------------------------------------------------------------- slices, indexing

func (i *interpreter) makeSlice(t types.Type, ln, cp value) value {
	if isByteSliceType(t) {
		// fresh zero bytes; only the length is known symbolically
		var content value
		if c, ok := cp.(int64); ok && c <= 64 {
			content = string(make([]byte, c))
		} else {
			z := i.path.freshVar("zeros", SStr)
			i.path.assume(i.path.mkIntCmp("=", i.path.mkLen(z), cp))
			z.ln = cp
			content = z
		}
		return &byteSlice{arr: &byteArr{content: content}, off: int64(0), len: ln, cap: cp}
	}
	l := i.concreteInt(ln, "make len")
	if _, sym := cp.(*Sym); sym {
		// symbolic capacity, concrete length: the capacity only matters to cap()
		// and to whether append reallocates; model it as exactly the length
		i.require(i.path.mkIntCmp(">=", cp, l), "makeslice: cap out of range")
		i.ex.noteApprox("make: symbolic slice capacity modelled as the length")
		cp = l
	}
	n := i.concreteInt(cp, "make cap")
	if n < 0 || l < 0 || l > n {
		rtPanic("makeslice: len out of range")
	}
	if n > 1<<24 {
		unsup("make: slice too large (%d)", n)
	}
	s := make([]value, n)
	tElt := t.Underlying().(*types.Slice).Elem()
	for k := range s {
		s[k] = zero(tElt)
	}
	return s[:l]
}

// checkBounds forks on lo <= x <= hi style conditions, raising a Go panic on the failing side.
func (i *interpreter) require(c value, msg string) {
	if !i.branch(c) {
		rtPanic(msg)
	}
}

func (i *interpreter) slice(instr *ssa.Slice, x, lo, hi, max value) value {
	p := i.path
	switch x := x.(type) {
	case string, *Sym:
		ln := p.mkLen(x)
		var l value = int64(0)
		if lo != nil {
			l = lo
		}
		var h value = ln
		if hi != nil {
			h = hi
		}
		i.require(mkAnd(p.mkIntCmp("<=", int64(0), l), mkAnd(p.mkIntCmp("<=", l, h), p.mkIntCmp("<=", h, ln))), "slice bounds out of range")
		return p.mkSubstr(x, l, p.mkSub(h, l))
	case *byteSlice:
		if x == nil {
			x = &byteSlice{arr: &byteArr{content: ""}, off: int64(0), len: int64(0), cap: int64(0)}
			if lo == nil && hi == nil {
				return (*byteSlice)(nil)
			}
		}
		var l value = int64(0)
		if lo != nil {
			l = lo
		}
		var h value = x.len
		if hi != nil {
			h = hi
		}
		var m value = x.cap
		if max != nil {
			m = max
		}
		i.require(mkAnd(p.mkIntCmp("<=", int64(0), l), mkAnd(p.mkIntCmp("<=", l, h), mkAnd(p.mkIntCmp("<=", h, m), p.mkIntCmp("<=", m, x.cap)))), "slice bounds out of range")
		return &byteSlice{arr: x.arr, off: p.mkAdd(x.off, l), len: p.mkSub(h, l), cap: p.mkSub(m, l)}
	case []value:
		l := int64(0)
		if lo != nil {
			l = i.concreteInt(lo, "slice low")
		}
		h := int64(len(x))
		if hi != nil {
			h = i.concreteInt(hi, "slice high")
		}
		m := int64(cap(x))
		if max != nil {
			m = i.concreteInt(max, "slice max")
		}
		if l < 0 || l > h || h > m || m > int64(cap(x)) {
			rtPanic(fmt.Sprintf("slice bounds out of range [%d:%d:%d] with capacity %d", l, h, m, cap(x)))
		}
		if x == nil {
			return x
		}
		return x[l:h:m]
	case *value: // *array
		if x == nil {
			rtPanic("nil pointer dereference (slice of nil array pointer)")
		}
		if ba, ok := (*x).(byteArray); ok {
			return i.slice(instr, &byteSlice{arr: ba.arr, off: int64(0), len: ba.n, cap: ba.n}, lo, hi, max)
		}
		a := (*x).(array)
		l := int64(0)
		if lo != nil {
			l = i.concreteInt(lo, "slice low")
		}
		h := int64(len(a))
		if hi != nil {
			h = i.concreteInt(hi, "slice high")
		}
		m := int64(cap(a))
		if max != nil {
			m = i.concreteInt(max, "slice max")
		}
		if l < 0 || l > h || h > m || m > int64(len(a)) {
			rtPanic("slice bounds out of range")
		}
		return []value(a)[l:h:m]
	}
	i.checkPoison(x, "slice")
	panic(fmt.Sprintf("slice: unexpected X type: %T", x))
}

func (i *interpreter) indexAddr(x, idx value) value {
	p := i.path
	switch x := x.(type) {
	case []value:
		k := i.indexConcrete(idx, len(x))
		return &x[k]
	case *value:
		if x == nil {
			rtPanic("invalid memory address or nil pointer dereference")
		}
		if ba, ok := (*x).(byteArray); ok {
			i.require(mkAnd(p.mkIntCmp("<=", int64(0), idx), p.mkIntCmp("<", idx, ba.n)), "index out of range")
			return &bytePtr{arr: ba.arr, idx: idx}
		}
		a, ok := (*x).(array)
		if !ok {
			unsup("IndexAddr: cell holds %T", *x)
		}
		k := i.indexConcrete(idx, len(a))
		return &a[k]
	case *byteSlice:
		if x == nil {
			rtPanic("index out of range (nil slice)")
		}
		i.require(mkAnd(p.mkIntCmp("<=", int64(0), idx), p.mkIntCmp("<", idx, x.len)), "index out of range")
		return &bytePtr{arr: x.arr, idx: p.mkAdd(x.off, idx)}
	}
	i.checkPoison(x, "indexaddr")
	panic(fmt.Sprintf("unexpected x type in IndexAddr: %T", x))
}

// indexConcrete resolves an index into a concrete-length sequence; a symbolic
// index is case-split over the (small) length.
func (i *interpreter) indexConcrete(idx value, n int) int64 {
	switch k := idx.(type) {
	case int64:
		if k < 0 || k >= int64(n) {
			rtPanic(fmt.Sprintf("index out of range [%d] with length %d", k, n))
		}
		return k
	case *Sym:
		if n > 64 {
			unsup("symbolic index into sequence of length %d", n)
		}
		for c := 0; c < n; c++ {
			if i.branch(i.path.mkIntCmp("=", k, int64(c))) {
				return int64(c)
			}
		}
		rtPanic("index out of range (symbolic)")
	}
	i.checkPoison(idx, "index")
	panic("indexConcrete")
}

func (i *interpreter) index(x, idx value) value {
	p := i.path
	switch x := x.(type) {
	case array:
		return x[i.indexConcrete(idx, len(x))]
	case byteArray:
		i.require(mkAnd(p.mkIntCmp("<=", int64(0), idx), p.mkIntCmp("<", idx, x.n)), "index out of range")
		return p.mkAt(x.arr.content, idx)
	case string, *Sym:
		i.require(mkAnd(p.mkIntCmp("<=", int64(0), idx), p.mkIntCmp("<", idx, p.mkLen(x))), "index out of range")
		return p.mkAt(x, idx)
	}
	i.checkPoison(x, "index")
	panic(fmt.Sprintf("unexpected x type in Index: %T", x))
}
