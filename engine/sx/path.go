package sx

// Path state and replay-based forking: every path is executed from the start
// of the harness with a prefix of recorded decisions; at the first undecided
// symbolic branch the solver is asked which sides are feasible, one side is
// followed and the other is queued as a new prefix.

import (
	"fmt"
	"math/big"
	"sort"
	"strings"
)

type pathEnd struct {
	reason string // "assume", "exit", "unwind", "budget", "done-crash"
	detail string
}

type Obligation struct {
	Harness string
	Kind    string // "assert", "panic", "cover", "unwind"
	Msg     string
	Pos     string
	Status  string // "holds", "violated", "undecided", "reached"
	Model   map[string]ModelVal
	Path    string
	Known   string // id of the known finding that covers the violation, if any
	SolverS float64
}

type ModelVal struct {
	Kind string `json:"k"` // int, bool, str
	V    string `json:"v"` // decimal, true/false, hex bytes
}

type Path struct {
	ex        *Explorer
	prefix    []int
	pos       int
	taken     []int // decisions actually taken on this path
	pc        []string
	lazy      []string // heavy constraints: only asserted in obligation/witness queries
	decls     []string // (declare-const ...) lines in order
	declSet   map[string]bool
	inputs    []string // nondet input symbol names in creation order
	inputSort map[string]Sort
	counters  map[string]int
	varIv     map[string]ival
	fresh     int
	covers    []string
	observes  []observation
	events    []string
	obls      []*Obligation
	steps     int64
	symBranch int
	ended     string
	bounds    map[string]int64
	usesStr   bool
	unknowns  int
	ending    bool
	regs      []region
	memo      map[string]interface{}
	facts     map[string]bool
	alpha     map[string]*[256]bool // term -> allowed bytes
	interp    *interpreter
	classCons []classCon // regular-language class constraints, asserted only for short strings
}

type observation struct {
	label string
	v     value
}

func (p *Path) id() string {
	var b strings.Builder
	for _, d := range p.taken {
		fmt.Fprintf(&b, "%d", d)
	}
	if b.Len() == 0 {
		return "-"
	}
	return b.String()
}

// declare registers a fresh SMT constant.
func (p *Path) declare(name string, s Sort) *Sym {
	if !p.declSet[name] {
		p.declSet[name] = true
		p.decls = append(p.decls, "(declare-const "+name+" "+s.String()+")")
	}
	sym := &Sym{sort: s, e: name, op: "var"}
	if s == SStr {
		p.usesStr = true
	}
	return sym
}

func (p *Path) freshName(prefix string) string {
	p.fresh++
	return fmt.Sprintf("%s!%d", prefix, p.fresh)
}

// freshVar creates an internal (non-input) variable.
func (p *Path) freshVar(prefix string, s Sort) *Sym {
	return p.declare("|"+p.freshName(prefix)+"|", s)
}

// input creates a named nondeterministic input; repeated names get #k suffixes.
func (p *Path) input(name string, s Sort) *Sym {
	k := p.counters[name]
	p.counters[name] = k + 1
	full := fmt.Sprintf("%s#%d", name, k)
	sym := p.declare("|"+full+"|", s)
	if fv, ok := p.ex.Fixed[full]; ok {
		// debugging aid: pin this input to a concrete value
		switch s {
		case SInt:
			p.pc = append(p.pc, "(= "+sym.e+" "+fv+")")
		case SBool:
			p.pc = append(p.pc, "(= "+sym.e+" "+fv+")")
		case SStr:
			p.pc = append(p.pc, "(= "+sym.e+" "+fv+")")
		}
	}
	p.inputs = append(p.inputs, full)
	p.inputSort[full] = s
	return sym
}

// assume adds a constraint to the path condition (no feasibility check).
func (p *Path) assume(c value) {
	switch c := c.(type) {
	case bool:
		if !c {
			panic(pathEnd{reason: "assume"})
		}
	case *Sym:
		p.pc = append(p.pc, c.e)
		p.refine(c, true)
	}
}

// refine updates variable intervals from a comparison that is now known.
func (p *Path) refine(c *Sym, truth bool) {
	switch c.op {
	case "not":
		if s, ok := c.a[0].(*Sym); ok {
			p.refine(s, !truth)
		}
	case "and":
		if truth {
			for _, a := range c.a {
				if s, ok := a.(*Sym); ok {
					p.refine(s, true)
				}
			}
		}
	case "or":
		if !truth {
			for _, a := range c.a {
				if s, ok := a.(*Sym); ok {
					p.refine(s, false)
				}
			}
		}
	case "contains":
		if !truth {
			if sub, ok := c.a[1].(string); ok {
				for _, sg := range segmentsOf(c.a[0]) {
					if ss, ok := sg.(*Sym); ok {
						p.facts["nc|"+ss.e+"|"+sub] = true
					}
				}
			}
		}
	case "<", "<=", ">", ">=", "=":
		op := c.op
		if !truth {
			switch op {
			case "<":
				op = ">="
			case "<=":
				op = ">"
			case ">":
				op = "<="
			case ">=":
				op = "<"
			case "=":
				return
			}
		}
		x, y := c.a[0], c.a[1]
		p.refineCmp(op, x, y)
		// mirrored
		mir := map[string]string{"<": ">", "<=": ">=", ">": "<", ">=": "<=", "=": "="}
		p.refineCmp(mir[op], y, x)
	}
}

func (p *Path) refineCmp(op string, x, y value) {
	xs, ok := x.(*Sym)
	if !ok || (xs.op != "var" && xs.op != "len") {
		return
	}
	yl, yh := p.ivOf(y)
	iv := p.varIv[xs.e]
	setHi := func(h *big.Int) {
		if h != nil && (iv.hi == nil || h.Cmp(iv.hi) < 0) {
			iv.hi = h
		}
	}
	setLo := func(l *big.Int) {
		if l != nil && (iv.lo == nil || l.Cmp(iv.lo) > 0) {
			iv.lo = l
		}
	}
	switch op {
	case "<":
		setHi(subBig(yh, bigOne))
	case "<=":
		setHi(yh)
	case ">":
		setLo(addBig(yl, bigOne))
	case ">=":
		setLo(yl)
	case "=":
		setHi(yh)
		setLo(yl)
	}
	p.varIv[xs.e] = iv
}

type classCon struct {
	term  *Sym
	re    string
	class string
}

// query text for the current path condition plus extra assertions; full
// includes the lazily kept heavy constraints.
func (p *Path) queryText(full bool, extra ...string) string {
	var b strings.Builder
	for _, d := range p.decls {
		b.WriteString(d)
		b.WriteByte('\n')
	}
	for _, c := range p.pc {
		b.WriteString("(assert ")
		b.WriteString(c)
		b.WriteString(")\n")
	}
	if full {
		for _, cc := range p.classCons {
			// long class-constrained strings are out of the string solvers' reach
			// (measured: |s| ~ 670 with s in ws* times out); for them the
			// constraint is dropped (sound for "holds") and models are projected
			lo, hi := p.ivOf(p.mkLen(cc.term))
			exact := hi != nil && lo != nil && lo.Cmp(hi) == 0 && strings.HasPrefix(cc.class, "alpha:")
			if hi != nil && hi.IsInt64() && (hi.Int64() <= 24 || (exact && hi.Int64() <= 64)) {
				if exact && hi.Int64() >= 8 {
					// exact length: a counted loop is much cheaper than star + length (measured)
					n := hi.String()
					b.WriteString("(assert (str.in_re " + cc.term.e + " ((_ re.loop " + n + " " + n + ") " + cc.class[6:] + ")))\n")
				} else {
					b.WriteString("(assert (str.in_re " + cc.term.e + " " + cc.re + "))\n")
				}
			}
		}
		for _, c := range p.lazy {
			b.WriteString("(assert ")
			b.WriteString(c)
			b.WriteString(")\n")
		}
	}
	for _, c := range extra {
		b.WriteString("(assert ")
		b.WriteString(c)
		b.WriteString(")\n")
	}
	return b.String()
}

// inputTerms lists the get-value terms for all inputs.
func (p *Path) inputTerms() []string {
	r := make([]string, len(p.inputs))
	for i, n := range p.inputs {
		r[i] = "|" + n + "|"
	}
	return r
}

func sortedKeysOf(m map[string]ModelVal) []string {
	var ks []string
	for k := range m {
		ks = append(ks, k)
	}
	sort.Strings(ks)
	return ks
}

// noContain: is the one-byte string c provably absent from segment term e?
func (p *Path) noContain(e string, c string) bool {
	if p.facts["nc|"+e+"|"+c] {
		return true
	}
	if a, ok := p.alpha[e]; ok && len(c) == 1 && !a[c[0]] {
		return true
	}
	return false
}

func (p *Path) setAlpha(e string, allowed *[256]bool) { p.alpha[e] = allowed }

// validEq asks the solver whether a = b follows from the path condition.
func (p *Path) validEq(a, b value) bool {
	if tInt(a) == tInt(b) {
		return true
	}
	c := p.mkIntCmp("=", a, b)
	if cb, ok := c.(bool); ok {
		return cb
	}
	if p.interp == nil {
		return false
	}
	key := "valideq|" + tInt(a) + "|" + tInt(b) + "|" + fmt.Sprint(len(p.pc))
	if v, ok := p.memo[key]; ok {
		return v.(bool)
	}
	r := p.interp.solveFeas([]string{"(not " + tBool(c) + ")"})
	ok := r.res == "unsat"
	p.memo[key] = ok
	return ok
}

// validCond asks the solver whether c follows from the path condition.
func (p *Path) validCond(c value) bool {
	if cb, ok := c.(bool); ok {
		return cb
	}
	if p.interp == nil {
		return false
	}
	key := "valid|" + tBool(c) + "|" + fmt.Sprint(len(p.pc))
	if v, ok := p.memo[key]; ok {
		return v.(bool)
	}
	r := p.interp.solveFeas([]string{"(not " + tBool(c) + ")"})
	ok := r.res == "unsat"
	p.memo[key] = ok
	return ok
}
