package sx

// Sequentialised goroutines: `go f()` is queued and run when the spawning
// goroutine blocks or finishes; channels are FIFO queues. Exactly one schedule
// is explored (plus harness-selected variants); see DESIGN.md.

import (
	"go/types"

	"golang.org/x/tools/go/ssa"
)

type pendingGo struct {
	fn   value
	args []value
}

type scheduler struct {
	i       *interpreter
	pending []pendingGo
	running int
}

func newScheduler(i *interpreter) *scheduler { return &scheduler{i: i} }

func (i *interpreter) spawn(fr *frame, instr *ssa.Go, fn value, args []value) {
	if i.initDepth > 0 {
		return // goroutines started by package initialisers (runtime helpers) are not part of any harness
	}
	i.sched.pending = append(i.sched.pending, pendingGo{fn, args})
}

// runPending runs queued goroutines to completion (each must not block on
// something only the current goroutine can provide).
func (s *scheduler) runPending() bool {
	if len(s.pending) == 0 {
		return false
	}
	if s.running > 8 {
		unsup("goroutine nesting too deep (blocked goroutines waiting on each other)")
	}
	g := s.pending[0]
	s.pending = s.pending[1:]
	s.running++
	defer func() { s.running-- }()
	call(s.i, nil, 0, g.fn, g.args)
	return true
}

func (s *scheduler) drain() {
	for s.runPending() {
	}
}

func (i *interpreter) chanSend(ch *channel, v value) {
	if ch == nil {
		unsup("send on nil channel (blocks forever)")
	}
	if ch.closed {
		panic(targetPanic{runtime: true, msg: "send on closed channel"})
	}
	ch.buf = append(ch.buf, copyVal(v))
}

func (i *interpreter) chanRecv(ch *channel, instr *ssa.UnOp) value {
	if ch == nil {
		unsup("receive from nil channel (blocks forever)")
	}
	for len(ch.buf) == 0 && !ch.closed {
		if !i.sched.runPending() {
			panic(pathEnd{reason: "deadlock", detail: "receive on empty channel with no runnable goroutine at " + i.posOf(instr)})
		}
	}
	var v value
	ok := false
	if len(ch.buf) > 0 {
		v = ch.buf[0]
		ch.buf = ch.buf[1:]
		ok = true
	} else {
		v = zero(instr.X.Type().Underlying().(*types.Chan).Elem())
	}
	if instr.CommaOk {
		return tuple{v, ok}
	}
	return v
}

func (i *interpreter) doSelect(fr *frame, instr *ssa.Select) value {
	ready := func() int {
		for k, st := range instr.States {
			ch, _ := fr.get(st.Chan).(*channel)
			if ch == nil {
				continue
			}
			if st.Dir == types.RecvOnly {
				if len(ch.buf) > 0 || ch.closed {
					return k
				}
			} else {
				return k
			}
		}
		return -1
	}
	chosen := ready()
	for chosen < 0 && instr.Blocking {
		if !i.sched.runPending() {
			panic(pathEnd{reason: "deadlock", detail: "select with no ready case at " + i.posOf(instr)})
		}
		chosen = ready()
	}
	recvOk := false
	var recv value
	if chosen >= 0 {
		st := instr.States[chosen]
		ch := fr.get(st.Chan).(*channel)
		if st.Dir == types.RecvOnly {
			if len(ch.buf) > 0 {
				recv = ch.buf[0]
				ch.buf = ch.buf[1:]
				recvOk = true
			}
		} else {
			i.chanSend(ch, fr.get(st.Send))
		}
	}
	r := tuple{int64(chosen), recvOk}
	for k, st := range instr.States {
		if st.Dir == types.RecvOnly {
			var v value
			if k == chosen && recvOk {
				v = recv
			} else {
				v = zero(st.Chan.Type().Underlying().(*types.Chan).Elem())
			}
			r = append(r, v)
		}
	}
	return r
}
