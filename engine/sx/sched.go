package sx

// Goroutines as coroutines: every `go f()` of the code under analysis gets its
// own (real) goroutine, but exactly one of them runs at any time; control is
// handed over only where the running goroutine blocks (channel operation,
// select, WaitGroup.Wait, Mutex.Lock) or ends, or at a spawn when the schedule
// policy says so. Which runnable goroutine continues is decided by the
// schedule policy: deterministic (FIFO / LIFO / spawned-first) or, when the
// harness asks for it, a fork of the exploration (one path per choice, bounded
// by a switch budget). Channels have their Go capacity semantics: a send on a
// full (or unbuffered) channel blocks until a receiver has taken the value.
// See DESIGN.md 11.6.

import (
	"fmt"
	"go/types"
	"os"

	"golang.org/x/tools/go/ssa"
)

var schedTrace = os.Getenv("GOSMT_SCHEDTRACE") != ""

type gor struct {
	id       int
	resume   chan struct{}
	started  bool
	done     bool
	ready    func() bool // nil: runnable; otherwise blocked until ready()
	what     string      // what it is blocked on (for deadlock reports)
	recvWait []*channel  // channels it is blocked receiving on
	idle     bool        // runs only when nothing else can (a slow consumer, a long sleep)
	fn       value
	args     []value
}

// gorKill unwinds a parked goroutine when its path is over.
type gorKill struct{}

// gorPanic carries an unrecovered panic of a spawned goroutine to the path runner.
type gorPanic struct{ tp targetPanic }

type scheduler struct {
	i        *interpreter
	gors     []*gor
	cur      *gor
	fatal    interface{}
	killing  bool
	draining bool
	killed   chan struct{}
	// schedule policy: 0 FIFO, 1 LIFO, 2 spawned goroutine runs first;
	// choose > 0: the next `choose` scheduling decisions with more than one
	// candidate fork the exploration
	policy int
	choose int
}

func newScheduler(i *interpreter) *scheduler {
	main := &gor{id: 0, resume: make(chan struct{}, 1), started: true}
	return &scheduler{i: i, gors: []*gor{main}, cur: main, killed: make(chan struct{}, 1)}
}

func (i *interpreter) spawn(fr *frame, instr *ssa.Go, fn value, args []value) {
	if i.initDepth > 0 {
		return // goroutines started by package initialisers (runtime helpers) are not part of any harness
	}
	s := i.sched
	live := 0
	for _, g := range s.gors {
		if !g.done {
			live++
		}
	}
	if live > 64 || len(s.gors) > 4096 {
		unsup("more than 64 live goroutines (or 4096 spawned)")
	}
	if schedTrace {
		fmt.Fprintf(os.Stderr, "[sched] g%d spawns g%d at %s (live %d)\n", s.cur.id, len(s.gors), i.posOf(instr), live)
	}
	g := &gor{id: len(s.gors), resume: make(chan struct{}, 1), fn: fn, args: args}
	s.gors = append(s.gors, g)
	if s.policy == 2 {
		s.yieldTo(g)
	}
}

// runnable goroutines other than `except`, in policy order.
func (s *scheduler) candidates(except *gor) []*gor {
	var out []*gor
	for _, g := range s.gors {
		if g == except || g.done {
			continue
		}
		if g.ready == nil || g.ready() {
			out = append(out, g)
		}
	}
	if s.policy == 1 {
		for a, b := 0, len(out)-1; a < b; a, b = a+1, b-1 {
			out[a], out[b] = out[b], out[a]
		}
	}
	// idle goroutines come last, and only if nothing else is runnable
	var busy, idle []*gor
	for _, g := range out {
		if g.idle {
			idle = append(idle, g)
		} else {
			busy = append(busy, g)
		}
	}
	if len(busy) > 0 {
		return busy
	}
	return idle
}

func (s *scheduler) pick(except *gor) *gor {
	c := s.candidates(except)
	if len(c) == 0 {
		return nil
	}
	if len(c) > 1 && s.choose > 0 {
		s.choose--
		return c[s.i.choose(len(c))]
	}
	return c[0]
}

// transfer hands the processor to next and parks the calling goroutine until
// somebody hands it back.
func (s *scheduler) transfer(next *gor) {
	me := s.cur
	if next == me {
		return
	}
	s.cur = next
	s.wake(next)
	s.park(me)
}

func (s *scheduler) wake(g *gor) {
	if !g.started {
		g.started = true
		go s.body(g)
		return
	}
	g.resume <- struct{}{}
}

func (s *scheduler) park(me *gor) {
	<-me.resume
	if me.id != 0 {
		if s.killing {
			panic(gorKill{})
		}
		return
	}
	if s.fatal != nil {
		f := s.fatal
		s.fatal = nil
		if tp, ok := f.(targetPanic); ok {
			panic(gorPanic{tp})
		}
		panic(f)
	}
}

// yieldTo lets g run now; the caller stays runnable.
func (s *scheduler) yieldTo(g *gor) {
	s.transfer(g)
}

func (s *scheduler) body(g *gor) {
	defer func() {
		r := recover()
		g.done = true
		if s.killing {
			s.killed <- struct{}{}
			return
		}
		if r != nil {
			if _, kill := r.(gorKill); !kill && s.fatal == nil {
				s.fatal = r
			}
		}
		s.leave(g)
	}()
	call(s.i, nil, 0, g.fn, g.args)
}

// leave: the calling goroutine is finished (or must hand a fatal event to the
// main goroutine); pass the processor on without parking.
func (s *scheduler) leave(g *gor) {
	main := s.gors[0]
	if s.fatal != nil {
		s.cur = main
		s.wake(main)
		return
	}
	next := s.pick(g)
	if next == nil {
		if !s.draining {
			s.fatal = pathEnd{reason: "deadlock", detail: "all goroutines are blocked: " + s.blockedReport()}
		}
		next = main
	}
	s.cur = next
	s.wake(next)
}

func (s *scheduler) blockedReport() string {
	r := ""
	for _, g := range s.gors {
		if !g.done && g.ready != nil {
			r += fmt.Sprintf("[g%d %s] ", g.id, g.what)
		}
	}
	return r
}

// block parks the current goroutine until ready() holds, running others meanwhile.
func (s *scheduler) block(what string, ready func() bool) {
	me := s.cur
	for !ready() {
		me.ready, me.what = ready, what
		next := s.pick(me)
		if next == nil {
			me.ready = nil
			dl := pathEnd{reason: "deadlock", detail: what + "; all goroutines are blocked: " + s.blockedReport()}
			if me.id == 0 {
				panic(dl)
			}
			if s.draining {
				// the harness is over: goroutines that wait forever are not an event
				me.ready = func() bool { return false }
				s.transfer(s.gors[0])
				continue
			}
			s.fatal = dl
			me.ready = func() bool { return false }
			s.transfer(s.gors[0])
			continue
		}
		s.transfer(next)
	}
	me.ready, me.what, me.recvWait = nil, "", nil
}

// drain: the harness entry has returned; let the other goroutines run until
// each of them is finished or blocked for good.
func (s *scheduler) drain() {
	main := s.gors[0]
	s.draining = true
	for {
		next := s.pick(main)
		if next == nil {
			return
		}
		main.ready = func() bool { return false }
		s.transfer(next)
		main.ready = nil
	}
}

// killAll unwinds every parked goroutine (the path is over).
func (s *scheduler) killAll() {
	s.killing = true
	for _, g := range s.gors[1:] {
		if g.done {
			continue
		}
		if !g.started {
			g.done = true
			continue
		}
		s.cur = g
		g.resume <- struct{}{}
		<-s.killed
	}
}

func (s *scheduler) receiverWaiting(ch *channel) bool {
	for _, g := range s.gors {
		if g.done || g == s.cur || g.ready == nil {
			continue
		}
		for _, c := range g.recvWait {
			if c == ch {
				return true
			}
		}
	}
	return false
}

// ---------------------------------------------------------------- channels

func (i *interpreter) chanSend(ch *channel, v value) {
	if ch == nil {
		i.sched.block("send on nil channel", func() bool { return false })
	}
	if ch.closed {
		panic(targetPanic{runtime: true, msg: "send on closed channel"})
	}
	s := i.sched
	if ch.cap > 0 {
		if len(ch.buf) >= ch.cap {
			s.block("send on full channel", func() bool { return len(ch.buf) < ch.cap || ch.closed })
			if ch.closed {
				panic(targetPanic{runtime: true, msg: "send on closed channel"})
			}
		}
		ch.buf = append(ch.buf, copyVal(v))
		return
	}
	// unbuffered: offer the value, then wait until a receiver has taken it
	ticket := ch.sent
	ch.sent++
	ch.buf = append(ch.buf, copyVal(v))
	if ch.recvd <= ticket {
		s.block("send on unbuffered channel", func() bool { return ch.recvd > ticket || ch.closed })
		if ch.recvd <= ticket {
			panic(targetPanic{runtime: true, msg: "send on closed channel"})
		}
	}
}

func (ch *channel) take() value {
	v := ch.buf[0]
	ch.buf = ch.buf[1:]
	ch.recvd++
	return v
}

func (i *interpreter) chanRecv(ch *channel, instr *ssa.UnOp) value {
	s := i.sched
	if ch == nil {
		s.block("receive from nil channel", func() bool { return false })
	}
	if len(ch.buf) == 0 && !ch.closed {
		s.cur.recvWait = []*channel{ch}
		s.block("receive on empty channel at "+i.posOf(instr), func() bool { return len(ch.buf) > 0 || ch.closed })
	}
	var v value
	ok := false
	if len(ch.buf) > 0 {
		v = ch.take()
		ok = true
	} else {
		v = zero(instr.X.Type().Underlying().(*types.Chan).Elem())
	}
	if instr.CommaOk {
		return tuple{v, ok}
	}
	return v
}

func (i *interpreter) doSelect(fr *frame, instr *ssa.Select) value {
	s := i.sched
	chans := make([]*channel, len(instr.States))
	var recvs []*channel
	for k, st := range instr.States {
		chans[k], _ = fr.get(st.Chan).(*channel)
		if st.Dir == types.RecvOnly && chans[k] != nil {
			recvs = append(recvs, chans[k])
		}
	}
	ready := func() int {
		for k, st := range instr.States {
			ch := chans[k]
			if ch == nil {
				continue
			}
			if st.Dir == types.RecvOnly {
				if len(ch.buf) > 0 || ch.closed {
					return k
				}
			} else {
				if ch.closed {
					return k // panics below, as in Go
				}
				if ch.cap > 0 && len(ch.buf) < ch.cap {
					return k
				}
				if ch.cap == 0 && s.receiverWaiting(ch) && len(ch.buf) == 0 {
					return k
				}
			}
		}
		return -1
	}
	chosen := ready()
	if chosen < 0 && instr.Blocking {
		s.cur.recvWait = recvs
		s.block("select at "+i.posOf(instr), func() bool { return ready() >= 0 })
		chosen = ready()
	}
	recvOk := false
	var recv value
	if chosen >= 0 {
		st := instr.States[chosen]
		ch := chans[chosen]
		if st.Dir == types.RecvOnly {
			if len(ch.buf) > 0 {
				recv = ch.take()
				recvOk = true
			}
		} else {
			if ch.closed {
				panic(targetPanic{runtime: true, msg: "send on closed channel"})
			}
			ch.buf = append(ch.buf, copyVal(fr.get(st.Send)))
			if ch.cap == 0 {
				ch.sent++ // handed to the waiting receiver; the sender does not wait
			}
		}
	}
	r := tuple{int64(chosen), recvOk}
	for k, st := range instr.States {
		if st.Dir == types.RecvOnly {
			var v value
			if k == chosen && recvOk {
				v = recv
			} else {
				v = zero(st.Chan.Type().Underlying().(*types.Chan).Elem())
			}
			r = append(r, v)
		}
	}
	return r
}

// gosched: the current goroutine stays runnable but lets another one run now.
func (s *scheduler) gosched() {
	me := s.cur
	if next := s.pick(me); next != nil {
		s.transfer(next)
	}
}

// idleWait: the current goroutine continues only when no other goroutine can
// run (it "sleeps long enough" for everybody else to get as far as they can).
func (s *scheduler) idleWait() {
	me := s.cur
	me.idle = true
	if next := s.pick(me); next != nil {
		s.transfer(next)
	}
	me.idle = false
}
