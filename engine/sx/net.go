package sx

// net/http, net/url: request construction from URL parts (see verifURL).

import (
	"go/types"
	"net/http"
	"net/url"
	"strings"
)

type urlParts struct {
	scheme, host, path value
	user, pass        value // userinfo (nil: none)
}

func (i *interpreter) fieldIndex(t types.Type, name string) int {
	st := t.Underlying().(*types.Struct)
	for k := 0; k < st.NumFields(); k++ {
		if st.Field(k).Name() == name {
			return k
		}
	}
	unsup("field %s not found in %s", name, t)
	return -1
}

func (i *interpreter) newStruct(pkg, name string) (types.Type, structure) {
	t := i.namedType(pkg, name)
	return t, zero(t).(structure)
}

func (i *interpreter) mkURL(scheme, host, path, rawq value) *value {
	t, s := i.newStruct("net/url", "URL")
	s[i.fieldIndex(t, "Scheme")] = scheme
	s[i.fieldIndex(t, "Host")] = host
	s[i.fieldIndex(t, "Path")] = path
	s[i.fieldIndex(t, "RawQuery")] = rawq
	cell := value(s)
	return &cell
}

func init() {
	intrinsics["net/http.DetectContentType"] = func(fr *frame, a []value) value {
		if c, ok := fr.i.strArg(a[0]).(string); ok {
			return http.DetectContentType([]byte(c))
		}
		// content sniffing of symbolic bytes: some non-empty media type
		r := fr.i.path.freshVar("ctype", SStr)
		fr.i.path.assume(fr.i.path.mkIntCmp(">=", fr.i.path.mkLen(r), int64(1)))
		fr.i.ex.noteApprox("http.DetectContentType of symbolic bytes: arbitrary non-empty result")
		return r
	}
	escape := func(name string, real func(string) string, safe func(b int) bool) {
		intrinsics[name] = func(fr *frame, a []value) value {
			if c, ok := a[0].(string); ok {
				return real(c)
			}
			// escaping works byte by byte: do it segment by segment
			var out value = ""
			for _, sg := range segmentsOf(a[0]) {
				switch sg := sg.(type) {
				case string:
					out = mkConcat(out, real(sg))
				case *Sym:
					al, ok := fr.i.path.alpha[sg.e]
					if !ok {
						unsup("%s on a symbolic string of unknown alphabet", name)
					}
					for b := 0; b < 256; b++ {
						if al[b] && !safe(b) {
							unsup("%s on a symbolic string whose alphabet needs escaping", name)
						}
					}
					out = mkConcat(out, sg) // nothing to escape
				}
			}
			return out
		}
	}
	unreserved := func(b int) bool {
		return b >= 'a' && b <= 'z' || b >= 'A' && b <= 'Z' || b >= '0' && b <= '9' || b == '-' || b == '_' || b == '.' || b == '~'
	}
	escape("net/url.QueryEscape", url.QueryEscape, unreserved)
	escape("net/url.PathEscape", url.PathEscape, unreserved)
	reg := func(name string, h intrinsic) { intrinsics[name] = h }
	// verifURLUser(scheme, user, pass, host, path): a URL with userinfo
	verifAPI["verifURLUser"] = func(fr *frame, a []value) value {
		u := mkConcat(mkConcat(mkConcat(mkConcat(mkConcat(mkConcat(mkConcat(a[0], "://"), a[1]), ":"), a[2]), "@"), a[3]), a[4])
		fr.i.path.memo["url|"+tStr(u)] = urlParts{scheme: a[0], host: a[3], path: a[4], user: a[1], pass: a[2]}
		return u
	}
	// verifURLRel(host, path): a scheme-relative reference "//host/path"
	verifAPI["verifURLRel"] = func(fr *frame, a []value) value {
		u := mkConcat(mkConcat("//", a[0]), a[1])
		fr.i.path.memo["url|"+tStr(u)] = urlParts{scheme: "", host: a[0], path: a[1]}
		return u
	}
	verifAPI["verifURL"] = func(fr *frame, a []value) value {
		u := mkConcat(mkConcat(mkConcat(a[0], "://"), a[1]), a[2])
		fr.i.path.memo["url|"+tStr(u)] = urlParts{scheme: a[0], host: a[1], path: a[2]}
		return u
	}
	setUser := func(i *interpreter, pu *value, user, pass value, passSet bool) {
		ut, us := i.newStruct("net/url", "Userinfo")
		us[i.fieldIndex(ut, "username")] = user
		us[i.fieldIndex(ut, "password")] = pass
		us[i.fieldIndex(ut, "passwordSet")] = passSet
		ucell := value(us)
		urlT := i.namedType("net/url", "URL")
		(*pu).(structure)[i.fieldIndex(urlT, "User")] = &ucell
	}
	parse := func(fr *frame, raw value) (*value, value) {
		i := fr.i
		if c, ok := raw.(string); ok {
			u, err := url.Parse(c)
			if err != nil {
				return nil, i.newError(err.Error())
			}
			p := i.mkURL(u.Scheme, u.Host, u.Path, u.RawQuery)
			if u.User != nil {
				pw, set := u.User.Password()
				setUser(i, p, u.User.Username(), pw, set)
			}
			return p, nilErr()
		}
		if m, ok := i.path.memo["url|"+tStr(raw)]; ok {
			up := m.(urlParts)
			pu := i.mkURL(up.scheme, up.host, up.path, "")
			if up.user != nil {
				setUser(i, pu, up.user, up.pass, true)
			}
			return pu, nilErr()
		}
		// a concrete "scheme://host/..." prefix followed by path segments whose
		// alphabets hold no URL meta character: everything after the host is the path
		if segs := segmentsOf(raw); len(segs) > 1 {
			if head, ok := segs[0].(string); ok {
				if u, err := url.Parse(head); err == nil && u.Scheme != "" && u.Host != "" && strings.HasPrefix(u.Path, "/") && u.RawQuery == "" && u.Fragment == "" && !strings.ContainsAny(head, "?#%") {
					plain := true
					for _, sg := range segs[1:] {
						switch sg := sg.(type) {
						case string:
							if strings.ContainsAny(sg, "?#% ") {
								plain = false
							}
						case *Sym:
							a, ok := i.path.alpha[sg.e]
							if !ok {
								plain = false
								break
							}
							for b := 0; b < 256; b++ {
								if a[b] && (b <= ' ' || b >= 0x7f || strings.IndexByte("?#%\"<>[]^`{|}", byte(b)) >= 0) {
									plain = false
								}
							}
						}
					}
					if plain {
						return i.mkURL(u.Scheme, u.Host, mkConcat(u.Path, concatOf(segs[1:])), ""), nilErr()
					}
				}
			}
		}
		unsup("url.Parse on a symbolic string that was not built with verifURL")
		return nil, nil
	}
	reg("net/url.Parse", func(fr *frame, a []value) value {
		u, err := parse(fr, a[0])
		if u == nil {
			return tuple{(*value)(nil), err}
		}
		return tuple{u, err}
	})
	reg("net/http.NewRequest", func(fr *frame, a []value) value {
		i := fr.i
		u, err := parse(fr, a[1])
		if u == nil {
			return tuple{(*value)(nil), err}
		}
		t, s := i.newStruct("net/http", "Request")
		s[i.fieldIndex(t, "Method")] = a[0]
		s[i.fieldIndex(t, "URL")] = u
		s[i.fieldIndex(t, "Proto")] = "HTTP/1.1"
		s[i.fieldIndex(t, "ProtoMajor")] = int64(1)
		s[i.fieldIndex(t, "ProtoMinor")] = int64(1)
		s[i.fieldIndex(t, "Header")] = newOmap(types.Typ[types.String])
		s[i.fieldIndex(t, "Host")] = (*u).(structure)[i.fieldIndex(i.namedType("net/url", "URL"), "Host")]
		s[i.fieldIndex(t, "Body")] = a[2]
		cell := value(s)
		return tuple{&cell, nilErr()}
	})
	reg("(*net/url.URL).String", func(fr *frame, a []value) value {
		i := fr.i
		pv := a[0].(*value)
		if pv == nil {
			rtPanic("nil *url.URL")
		}
		t := i.namedType("net/url", "URL")
		s := (*pv).(structure)
		sch, host, path, q := s[i.fieldIndex(t, "Scheme")], s[i.fieldIndex(t, "Host")], s[i.fieldIndex(t, "Path")], s[i.fieldIndex(t, "RawQuery")]
		var ui *url.Userinfo
		if up, ok := s[i.fieldIndex(t, "User")].(*value); ok && up != nil {
			ut := i.namedType("net/url", "Userinfo")
			us := (*up).(structure)
			un, pw, set := us[i.fieldIndex(ut, "username")], us[i.fieldIndex(ut, "password")], us[i.fieldIndex(ut, "passwordSet")]
			setc, isb := set.(bool)
			if !concreteStrs(un, pw, sch, host, path, q) || !isb {
				unsup("(*url.URL).String with symbolic parts and userinfo")
			}
			ui = url.User(un.(string))
			if setc {
				ui = url.UserPassword(un.(string), pw.(string))
			}
		}
		if concreteStrs(sch, host, path, q) {
			u := url.URL{Scheme: sch.(string), Host: host.(string), Path: path.(string), RawQuery: q.(string), User: ui}
			return u.String()
		}
		r := mkConcat(mkConcat(mkConcat(sch, "://"), host), path)
		if qc, ok := q.(string); !ok || qc != "" {
			r = mkConcat(mkConcat(r, "?"), q)
		} else {
			// remember the parts so that parsing the text again gives them back
			fr.i.path.memo["url|"+tStr(r)] = urlParts{scheme: sch, host: host, path: path}
		}
		return r
	})
	// host = name [":" port]: Port/Hostname on the URL parts
	hostParts := func(fr *frame, u value) (name, port value) {
		i := fr.i
		pv := u.(*value)
		if pv == nil {
			rtPanic("nil *url.URL")
		}
		t := i.namedType("net/url", "URL")
		host := (*pv).(structure)[i.fieldIndex(t, "Host")]
		if c, ok := host.(string); ok {
			uu := url.URL{Host: c}
			return uu.Hostname(), uu.Port()
		}
		segs := segmentsOf(host)
		p := i.path
		// find the last concrete segment containing ':' ; everything after it must be digit-only
		for k := len(segs) - 1; k >= 0; k-- {
			switch sg := segs[k].(type) {
			case string:
				if j := strings.LastIndex(sg, ":"); j >= 0 {
					return mkConcat(concatOf(segs[:k]), sg[:j]), mkConcat(sg[j+1:], concatOf(segs[k+1:]))
				}
			case *Sym:
				if !p.noContain(sg.e, ":") {
					unsup("url host with a symbolic part that may contain ':'")
				}
			}
		}
		return host, ""
	}
	reg("(*net/url.URL).Port", func(fr *frame, a []value) value { _, p := hostParts(fr, a[0]); return p })
	reg("(*net/url.URL).Hostname", func(fr *frame, a []value) value { n, _ := hostParts(fr, a[0]); return n })
	reg("net/textproto.CanonicalMIMEHeaderKey", func(fr *frame, a []value) value {
		c, ok := a[0].(string)
		if !ok {
			unsup("CanonicalMIMEHeaderKey on symbolic key")
		}
		// textproto canonicalisation of valid tokens
		up := true
		b := []byte(c)
		for k, ch := range b {
			if !(ch >= 'a' && ch <= 'z' || ch >= 'A' && ch <= 'Z' || ch >= '0' && ch <= '9' || strings.ContainsRune("!#$%&'*+-.^_`|~", rune(ch))) {
				return c
			}
			if up && ch >= 'a' && ch <= 'z' {
				b[k] = ch - 32
			} else if !up && ch >= 'A' && ch <= 'Z' {
				b[k] = ch + 32
			}
			up = ch == '-'
		}
		return string(b)
	})
}
