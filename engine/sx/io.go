package sx

// io helpers and harness-side file-system API.

import (
	"go/token"
	"go/types"
	"path/filepath"
	"strings"
)

const tokenAND = token.AND

// readerContent returns the whole remaining content of well-known readers
// without calling Read (ok=false if the reader is not one of them).
func (i *interpreter) readerContent(r iface, consume bool) (value, bool) {
	p := i.path
	if r.t == nil {
		return nil, false
	}
	// harness readers may offer their whole remaining content (io.Copy and
	// io.ReadAll do not depend on how a reader chunks its data)
	if consume && hasMethod(i.prog, r.t, "verifDrain") {
		return i.callMethod(nil, r, "verifDrain"), true
	}
	switch r.t.String() {
	case "*io.multiReader":
		if !consume {
			return nil, false
		}
		pv := r.v.(*value)
		s := (*pv).(structure)
		rs, _ := s[0].([]value)
		var all value = ""
		for _, sub := range rs {
			si, ok := sub.(iface)
			if !ok {
				return nil, false
			}
			c, ok := i.readerContent(si, true)
			if !ok {
				return nil, false // (earlier sub-readers are already drained: only used by io.Copy / ReadAll)
			}
			all = mkConcat(all, c)
		}
		s[0] = []value(nil)
		return i.compact(all), true
	case "*os.File":
		h := handleOf(r.v)
		if h.closed || !h.rd {
			return nil, false
		}
		c := h.f.target().content
		size := p.mkLen(c)
		rest := p.mkSubstr(c, h.pos, p.mkSub(size, h.pos))
		if consume {
			h.pos = size
		}
		return rest, true
	case "*bytes.Buffer":
		pv := r.v.(*value)
		if pv == nil {
			return nil, false
		}
		s := (*pv).(structure)
		cur, _ := s[0].(*byteSlice)
		var all value = ""
		if cur != nil {
			all = i.bytesOf(cur)
		}
		rest := p.mkSubstr(all, s[1], p.mkSub(p.mkLen(all), s[1]))
		if consume {
			s[0] = (*byteSlice)(nil)
			s[1] = int64(0)
		}
		return rest, true
	case "*bytes.Reader":
		pv := r.v.(*value)
		s := (*pv).(structure) // {s []byte, i int64, prevRune int}
		cur, _ := s[0].(*byteSlice)
		var all value = ""
		if cur != nil {
			all = i.bytesOf(cur)
		}
		rest := p.mkSubstr(all, s[1], p.mkSub(p.mkLen(all), s[1]))
		if consume {
			s[1] = p.mkLen(all)
		}
		return rest, true
	case "*strings.Reader":
		pv := r.v.(*value)
		s := (*pv).(structure) // {s string, i int64, prevRune int}
		rest := p.mkSubstr(s[0], s[1], p.mkSub(p.mkLen(s[0]), s[1]))
		if consume {
			s[1] = p.mkLen(s[0])
		}
		return rest, true
	}
	// a struct that only wraps a known reader (embedded as its first field, Read promoted)
	if pt, ok := types.Unalias(r.t).(*types.Pointer); ok {
		if st, ok := pt.Elem().Underlying().(*types.Struct); ok && st.NumFields() >= 1 && st.Field(0).Embedded() {
			ms := i.prog.MethodSets.MethodSet(r.t)
			for k := 0; k < ms.Len(); k++ {
				if sel := ms.At(k); sel.Obj().Name() == "Read" && len(sel.Index()) > 1 && sel.Index()[0] == 0 {
					if pv, _ := r.v.(*value); pv != nil {
						inner := (*pv).(structure)[0]
						ft := st.Field(0).Type()
						if itf, isI := inner.(iface); isI {
							return i.readerContent(itf, consume)
						}
						return i.readerContent(iface{t: ft, v: inner}, consume)
					}
				}
			}
		}
	}
	return nil, false
}

// copyAll moves everything from src to dst (io.Copy semantics) and returns (n, err).
func (i *interpreter) copyAll(fr *frame, dst, src iface, limit value) value {
	p := i.path
	if content, ok := i.readerContent(src, limit == nil); ok {
		if limit != nil {
			n := p.mkMin(limit, p.mkLen(content))
			content = p.mkSubstr(content, int64(0), n)
			i.advanceReader(src, n)
		}
		if nc, ok := p.mkLen(content).(int64); ok && nc == 0 {
			return tuple{int64(0), nilErr()}
		}
		res := i.callMethod(fr, dst, "Write", i.newBytes(content)).(tuple)
		return tuple{res[0], res[1]}
	}
	// generic loop: Read chunks until EOF (bounded by the unwinding limit)
	var total value = int64(0)
	for k := 0; ; k++ {
		if k > i.ex.Unwind+1 {
			p.obls = append(p.obls, &Obligation{Kind: "unwind", Msg: "io.Copy: more reads than the unwinding limit", Status: "undecided"})
			panic(pathEnd{reason: "unwind", detail: "io.Copy"})
		}
		var want value = int64(32 * 1024)
		if limit != nil {
			remaining := p.mkSub(limit, total)
			if !i.branch(p.mkIntCmp(">", remaining, int64(0))) {
				return tuple{total, nilErr()}
			}
			want = p.mkMin(want, remaining)
		}
		buf := i.makeSlice(types.NewSlice(types.Typ[types.Uint8]), want, want).(*byteSlice)
		res := i.callMethod(fr, src, "Read", buf).(tuple)
		n := res[0]
		if i.branch(p.mkIntCmp(">", n, int64(0))) {
			chunk := p.mkSubstr(buf.arr.content, int64(0), n)
			wres := i.callMethod(fr, dst, "Write", i.newBytes(chunk)).(tuple)
			total = p.mkAdd(total, wres[0])
			if we := wres[1].(iface); we.t != nil {
				return tuple{total, we}
			}
			if !i.branch(p.mkIntCmp("=", wres[0], n)) {
				return tuple{total, i.globalValue("io", "ErrShortWrite")}
			}
		}
		if e := res[1].(iface); e.t != nil {
			eof := i.globalValue("io", "EOF").(iface)
			if b, ok := p.equalsV(types.Universe.Lookup("error").Type(), e, eof).(bool); ok && b {
				return tuple{total, nilErr()}
			}
			return tuple{total, e}
		}
	}
}

func (i *interpreter) advanceReader(r iface, n value) {
	p := i.path
	switch r.t.String() {
	case "*os.File":
		h := handleOf(r.v)
		h.pos = p.mkAdd(h.pos, n)
	case "*bytes.Buffer", "*bytes.Reader", "*strings.Reader":
		s := (*(r.v.(*value))).(structure)
		s[1] = p.mkAdd(s[1], n)
	}
}

func init() {
	reg := func(name string, h intrinsic) { intrinsics[name] = h }
	reg("io.Copy", func(fr *frame, a []value) value {
		return fr.i.copyAll(fr, a[0].(iface), a[1].(iface), nil)
	})
	reg("io.CopyBuffer", func(fr *frame, a []value) value {
		return fr.i.copyAll(fr, a[0].(iface), a[1].(iface), nil)
	})
	reg("io.CopyN", func(fr *frame, a []value) value {
		i := fr.i
		res := i.copyAll(fr, a[0].(iface), a[1].(iface), a[2]).(tuple)
		if e := res[1].(iface); e.t == nil {
			if !i.branch(i.path.mkIntCmp("=", res[0], a[2])) {
				return tuple{res[0], i.globalValue("io", "EOF")}
			}
		}
		return res
	})
	reg("io.ReadAll", func(fr *frame, a []value) value {
		i := fr.i
		r := a[0].(iface)
		if content, ok := i.readerContent(r, true); ok {
			return tuple{i.newBytes(content), nilErr()}
		}
		data, err := i.readAll(fr, r)
		return tuple{i.newBytes(data), err}
	})
	reg("io.WriteString", func(fr *frame, a []value) value {
		return fr.i.callMethod(fr, a[0].(iface), "Write", fr.i.newBytes(a[1]))
	})

	// ---- path/filepath and path on concrete or clean symbolic parts
	join := func(fr *frame, a []value) value {
		parts, _ := a[0].([]value)
		allc := true
		for _, p := range parts {
			if _, ok := p.(string); !ok {
				allc = false
			}
		}
		if allc {
			ss := make([]string, len(parts))
			for k, p := range parts {
				ss[k] = p.(string)
			}
			return filepath.Join(ss...)
		}
		// symbolic elements must be clean single path elements (e.g. hex digests)
		var r value = ""
		first := true
		for _, p := range parts {
			if c, ok := p.(string); ok {
				if c == "" {
					continue
				}
				c = filepath.Clean(c)
				if !first {
					r = mkConcat(r, "/")
				}
				r = mkConcat(r, c)
			} else {
				fr.i.ex.noteAssumption("filepath.Join with a symbolic element: the element is a clean, non-empty single path element")
				if !first {
					r = mkConcat(r, "/")
				}
				r = mkConcat(r, p)
			}
			first = false
		}
		return r
	}
	reg("path/filepath.Join", join)
	reg("path.Join", join)
	reg("path/filepath.Dir", func(fr *frame, a []value) value {
		if c, ok := a[0].(string); ok {
			return filepath.Dir(c)
		}
		// symbolic: strip the last element when the term ends with "/" ++ element
		segs := segmentsOf(a[0])
		for k := len(segs) - 1; k >= 0; k-- {
			if c, ok := segs[k].(string); ok {
				if j := strings.LastIndex(c, "/"); j >= 0 {
					return mkConcat(concatOf(segs[:k]), c[:j])
				}
			}
		}
		unsup("filepath.Dir on symbolic path")
		return nil
	})
	reg("path/filepath.Base", func(fr *frame, a []value) value {
		if c, ok := a[0].(string); ok {
			return filepath.Base(c)
		}
		segs := segmentsOf(a[0])
		for k := len(segs) - 1; k >= 0; k-- {
			if c, ok := segs[k].(string); ok {
				if j := strings.LastIndex(c, "/"); j >= 0 {
					return mkConcat(c[j+1:], concatOf(segs[k+1:]))
				}
			}
		}
		unsup("filepath.Base on symbolic path")
		return nil
	})
	for _, n := range []string{"path/filepath.Clean", "path/filepath.ToSlash", "path/filepath.FromSlash", "path/filepath.Abs", "path/filepath.EvalSymlinks"} {
		n := n
		reg(n, func(fr *frame, a []value) value {
			var r value = a[0]
			if c, ok := a[0].(string); ok {
				switch n {
				case "path/filepath.Clean":
					r = filepath.Clean(c)
				}
			}
			if strings.HasSuffix(n, "Abs") || strings.HasSuffix(n, "EvalSymlinks") {
				return tuple{r, nilErr()}
			}
			return r
		})
	}
	reg("path/filepath.IsAbs", func(fr *frame, a []value) value { return mkPrefixOf("/", a[0]) })
	reg("path/filepath.Rel", func(fr *frame, a []value) value {
		b, ok1 := a[0].(string)
		t, ok2 := a[1].(string)
		if !ok1 || !ok2 {
			unsup("filepath.Rel on symbolic paths")
		}
		r, err := filepath.Rel(b, t)
		if err != nil {
			return tuple{"", fr.i.newError(err.Error())}
		}
		return tuple{r, nilErr()}
	})
	reg("path/filepath.Ext", func(fr *frame, a []value) value {
		c, ok := a[0].(string)
		if !ok {
			unsup("filepath.Ext on symbolic path")
		}
		return filepath.Ext(c)
	})

	// ---- harness-side file system API
	verifAPI["verifTempDir"] = func(fr *frame, a []value) value {
		fr.i.fsMkdirAll("/verifroot")
		return "/verifroot"
	}
	verifAPI["verifFSWrite"] = func(fr *frame, a []value) value {
		i := fr.i
		if c, ok := a[0].(string); ok {
			i.fsMkdirAll(filepath.Dir(c))
		}
		if f := i.fsLookup(a[0]); f != nil {
			f.target().content, f.target().mode = a[1], a[2]
			return nil
		}
		i.fs().files = append(i.fs().files, &fsFile{path: a[0], content: a[1], mode: a[2]})
		return nil
	}
	verifAPI["verifFSRead"] = func(fr *frame, a []value) value {
		f := fr.i.fsLookup(a[0])
		if f == nil {
			return tuple{"", false}
		}
		return tuple{f.target().content, true}
	}
	verifAPI["verifFSExists"] = func(fr *frame, a []value) value { return fr.i.fsLookup(a[0]) != nil }
	verifAPI["verifFSMode"] = func(fr *frame, a []value) value {
		f := fr.i.fsLookup(a[0])
		if f == nil {
			return int64(-1)
		}
		return f.target().mode
	}
	verifAPI["verifFSCount"] = func(fr *frame, a []value) value {
		// number of live regular files whose path starts with the (concrete) prefix
		pre := cstr(a[0], "prefix")
		n := int64(0)
		for _, f := range fr.i.fs().files {
			if f.dead {
				continue
			}
			lc, _ := leadConcrete(f.path)
			if strings.HasPrefix(lc, pre) {
				n++
			}
		}
		return n
	}
	verifAPI["verifFSOps"] = func(fr *frame, a []value) value { return int64(fr.i.fs().ops) }
}
